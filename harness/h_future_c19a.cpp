// C19, part 1: then() continuations. Programs of continuations (chains, trees, stars) hung off one
// root future, registered by several threads before / while / after the root completes, plus four
// scripted interleavings that use the gates inside run() and addToThenChainOrExecute().
#include "h_future_common.h"

namespace {

constexpr int kMaxNodes = 56;
constexpr int kMaxRegistrars = 4;

enum Script : int { kRandom = 0, kTestThenDrainThenPush = 1, kPushThenDrain = 2, kNotifyThenRegister = 3, kCasThenRegister = 4 };
const char* const kScriptNames[] = {"random", "window:test-drain-push", "window:push-drain-recheck", "window:notify-register-drain", "window:cas-register-finish"};

struct NodeSpec {
  int parent = -1; // -1: the root
  int sched = kSImmediate;
  bool async = false, deferred = true, throws = false, earlyGet = false;
  int registrar = 0;
  int preDelayUs = 0;
};

struct Spec {
  int script = kRandom;
  int rootSched = kSManual;
  int rootRes = 0; // 0 value, 1 void, 2 ref
  bool rootThrows = false;
  int rootDwellUs = 0, rootDelayUs = 0;
  int pool = 2;
  int gate = 0;
  int registrars = 1;
  int shape = 0; // 0 chain, 1 tree, 2 star
  int perturb = 0;
  bool spurious = false;
  std::vector<NodeSpec> nodes;
  J json() const {
    static const char* rn[] = {"value", "void", "ref"};
    static const char* sh[] = {"chain", "tree", "star"};
    J j;
    j.kv("script", kScriptNames[script]).kv("rootSched", schedName(rootSched)).kv("rootRes", rn[rootRes]).kv("rootThrows", rootThrows).kv("rootDwellUs", rootDwellUs).kv("rootDelayUs", rootDelayUs)
        .kv("pool", pool).kv("gate", gate).kv("registrars", registrars).kv("shape", sh[shape]).kv("perturb", perturb).kv("spurious", spurious).kv("n", nodes.size());
    std::string ns = "[";
    for (size_t i = 0; i < nodes.size(); ++i) {
      const NodeSpec& n = nodes[i];
      if (i) ns += ",";
      // compact: [parent, sched, async, deferred, throws, earlyGet, registrar, delay]
      ns += "[" + std::to_string(n.parent) + ",\"" + schedName(n.sched) + "\"," + std::to_string(n.async) + "," + std::to_string(n.deferred) + "," + std::to_string(n.throws) + "," + std::to_string(n.earlyGet) + "," +
          std::to_string(n.registrar) + "," + std::to_string(n.preDelayUs) + "]";
    }
    ns += "]";
    j.raw("nodes", ns);
    return j;
  }
};

struct NodeObs {
  std::atomic<int> runs{0};
  std::atomic<int> antReady{-1};
  std::atomic<long> saw{0};
  std::atomic<int> sawEx{0};
  std::atomic<uint64_t> entry{0}, exit{0};
  uint64_t thenCall = 0, thenRet = 0; // written by the registrar, read after join
  bool parentReadyBefore = false;
  bool earlyGot = false, earlyThrew = false;
  long earlyVal = 0, earlyEx = 0;
};

struct PCtx {
  Spec s;
  long rootVal = 0;
  long val[kMaxNodes]; // expected result value per node (if it does not throw)
  long exOf[kMaxNodes]; // exception id a node's future ends with (0: none)
  long rootEx = 0;
  std::atomic<int> rootRuns{0};
  std::atomic<uint64_t> rootEntry{0}, rootExit{0};
  std::atomic<int> totalRuns{0};
  std::unique_ptr<Payload> refTarget;
  NodeObs obs[kMaxNodes];
  dispenso::Future<Payload> fut[kMaxNodes];
  std::atomic<bool> go{false};
  std::atomic<int> arrived{0};
  std::atomic<uint64_t> casArrivedStamp{0};
};

struct RootBase {
  PCtx* c;
  FnGuts g;
  explicit RootBase(PCtx* cc) : c(cc) {}
  void body() {
    c->rootEntry.store(vrt::stamp(), std::memory_order_relaxed);
    int n = c->rootRuns.fetch_add(1, std::memory_order_relaxed);
    if (n > 8) {
      vrt::violation("root functor storm");
      _exit(5);
    }
    if (c->s.rootDwellUs) vrt::spinFor(c->s.rootDwellUs);
    vrt::progress();
    c->rootExit.store(vrt::stamp(), std::memory_order_relaxed);
  }
};
template <typename R>
struct RootFn;
template <>
struct RootFn<Payload> : RootBase {
  using RootBase::RootBase;
  Payload operator()() {
    body();
    if (c->s.rootThrows) throw CaseEx{c->rootEx};
    return Payload(c->rootVal);
  }
};
template <>
struct RootFn<void> : RootBase {
  using RootBase::RootBase;
  void operator()() {
    body();
    if (c->s.rootThrows) throw CaseEx{c->rootEx};
  }
};
template <>
struct RootFn<Payload&> : RootBase {
  using RootBase::RootBase;
  Payload& operator()() {
    body();
    if (c->s.rootThrows) throw CaseEx{c->rootEx};
    return *c->refTarget;
  }
};

template <typename R>
struct ValueOf {
  static long get(const dispenso::Future<R>& f, PCtx*) {
    return f.get().tag;
  }
};
template <>
struct ValueOf<void> {
  static long get(const dispenso::Future<void>& f, PCtx* c) {
    f.get();
    return c->rootVal;
  }
};

// The continuation. Its first action is the readiness probe of its antecedent.
template <typename R>
struct ThenFn {
  PCtx* c;
  int i;
  FnGuts g;
  ThenFn(PCtx* cc, int ii) : c(cc), i(ii) {}
  Payload operator()(dispenso::Future<R>&& a) {
    bool rdy = a.is_ready();
    NodeObs& o = c->obs[i];
    o.entry.store(vrt::stamp(), std::memory_order_relaxed);
    int n = o.runs.fetch_add(1, std::memory_order_relaxed);
    if (n == 0) o.antReady.store(rdy ? 1 : 0, std::memory_order_relaxed);
    else if (!rdy) o.antReady.store(0, std::memory_order_relaxed);
    if (n > 8) {
      vrt::violation("continuation storm", J().kv("node", i));
      _exit(5);
    }
    try {
      o.saw.store(ValueOf<R>::get(a, c), std::memory_order_relaxed);
    } catch (const CaseEx& e) {
      o.sawEx.store(static_cast<int>(e.id), std::memory_order_relaxed);
    }
    c->totalRuns.fetch_add(1, std::memory_order_relaxed);
    vrt::progress();
    o.exit.store(vrt::stamp(), std::memory_order_relaxed);
    if (c->s.nodes[static_cast<size_t>(i)].throws) throw CaseEx{c->exOf[i]};
    return Payload(c->val[i]);
  }
};

struct Env {
  std::unique_ptr<dispenso::ThreadPool> pool;
  std::unique_ptr<dispenso::TaskSet> ts;
  std::unique_ptr<dispenso::ConcurrentTaskSet> cts;
  ManualInvoker manual;
  dispenso::NewThreadInvoker nti;
  PoolGate gate;
};

template <typename RP>
dispenso::Future<Payload> registerOn(PCtx& c, Env& e, dispenso::Future<RP>& parent, int i) {
  const NodeSpec& n = c.s.nodes[static_cast<size_t>(i)];
  std::launch a = asyncPol(n.async), d = deferredPol(n.deferred);
  switch (n.sched) {
    case kSPool: return parent.then(ThenFn<RP>(&c, i), *e.pool, a, d);
    case kSTaskSet: return parent.then(ThenFn<RP>(&c, i), *e.ts, a, d);
    case kSCTaskSet: return parent.then(ThenFn<RP>(&c, i), *e.cts, a, d);
    case kSNewThread: return parent.then(ThenFn<RP>(&c, i), e.nti, a, d);
    default: return parent.then(ThenFn<RP>(&c, i), dispenso::kImmediateInvoker, a, d);
  }
}

template <typename R>
void registerNode(PCtx& c, Env& e, dispenso::Future<R>& rootCopy, int i) {
  const NodeSpec& n = c.s.nodes[static_cast<size_t>(i)];
  NodeObs& o = c.obs[i];
  if (n.preDelayUs) vrt::spinFor(n.preDelayUs);
  {
    RoleScope role(kRoleRegistrar);
    if (n.parent < 0) {
      o.parentReadyBefore = rootCopy.is_ready();
      o.thenCall = vrt::stamp();
      c.fut[i] = registerOn<R>(c, e, rootCopy, i);
    } else {
      o.parentReadyBefore = c.fut[n.parent].is_ready();
      o.thenCall = vrt::stamp();
      c.fut[i] = registerOn<Payload>(c, e, c.fut[n.parent], i);
    }
    o.thenRet = vrt::stamp();
  }
  if (n.earlyGet) {
    RoleScope role(kRoleWaiter);
    try {
      o.earlyVal = c.fut[i].get().tag;
      o.earlyGot = true;
    } catch (const CaseEx& ex) {
      o.earlyThrew = true;
      o.earlyEx = ex.id;
    }
  }
  vrt::progress();
}

template <typename R>
void registrarThread(PCtx* c, Env* e, dispenso::Future<R> rootCopy, int r) {
  c->arrived.fetch_add(1, std::memory_order_relaxed);
  while (!c->go.load(std::memory_order_relaxed)) {
    sched_yield();
  }
  for (int i = 0; i < static_cast<int>(c->s.nodes.size()); ++i) {
    if (c->s.nodes[static_cast<size_t>(i)].registrar == r) registerNode<R>(*c, *e, rootCopy, i);
  }
}

template <typename R, typename S>
dispenso::Future<R> makeRoot(PCtx& c, S& sched) {
  RoleScope role(kRoleCtor);
  return dispenso::Future<R>(RootFn<R>(&c), sched);
}

struct Outcome {
  std::vector<std::string> cls;
  J stats;
  bool nontrivial = false;
  std::string inconclusive;
};

// Waits until every continuation has run. Returns false if the system is quiescent and one never
// will: every registrar and the root's runner have returned, no NewThreadInvoker thread is alive, the
// pool has neither queued nor executing work, and that stayed so (with no continuation starting) over
// several consecutive passes. A continuation that is still going to run is either queued / running on
// the pool, running on a NewThreadInvoker thread, or linked into the chain of an antecedent for which
// the same holds, so quiescence with a missing run means its link was dropped.
bool waitAllRan(PCtx& c, Env& e) {
  int want = static_cast<int>(c.s.nodes.size());
  int stable = 0;
  for (;;) {
    int t0 = c.totalRuns.load(std::memory_order_relaxed);
    if (t0 >= want) return true;
    usleep(100);
    dispenso::detail::drainNewThreadInvokerThreads();
    long w = e.pool ? static_cast<long>(e.pool->verifWorkRemaining()) : 0;
    int t1 = c.totalRuns.load(std::memory_order_relaxed);
    if (t1 >= want) return true;
    if (w == 0 && t1 == t0) {
      if (++stable >= 6) return false;
    } else {
      stable = 0;
    }
  }
}

template <typename R>
Outcome runProgram(const Spec& s, long idx) {
  Outcome out;
  std::unique_ptr<PCtx> cp(new PCtx);
  PCtx& c = *cp;
  c.s = s;
  vrt::Rng r = vrt::caseRng(idx, 191);
  const int N = static_cast<int>(s.nodes.size());
  c.rootVal = 1 + static_cast<long>(r.below(1000));
  c.rootEx = 700 + static_cast<long>(r.below(100));
  for (int i = 0; i < N; ++i) {
    const NodeSpec& n = s.nodes[static_cast<size_t>(i)];
    long pv = n.parent < 0 ? c.rootVal : c.val[n.parent];
    c.val[i] = (pv * 3 + i + 1) % 1000003;
    c.exOf[i] = n.throws ? 1000 + i : 0;
  }
  vrt::lifeReset();
  applyPerturb(s.perturb, s.spurious, false);
  vrt::watchdogIdleFlatIsHang(true);
  std::vector<int> tsNotReady;
  bool lostDirect = false;
  {
    Env e;
    c.refTarget.reset(new Payload(c.rootVal));
    bool needPool = s.rootSched <= kSCTaskSet;
    bool needTs = s.rootSched == kSTaskSet, needCts = s.rootSched == kSCTaskSet;
    for (auto& n : s.nodes) {
      if (n.sched <= kSCTaskSet) needPool = true;
      if (n.sched == kSTaskSet) needTs = true;
      if (n.sched == kSCTaskSet) needCts = true;
    }
    if (needPool) {
      e.pool.reset(new dispenso::ThreadPool(static_cast<size_t>(s.pool)));
      if (s.gate && s.pool > 0) e.gate.block(*e.pool, s.pool);
      if (needTs) e.ts.reset(new dispenso::TaskSet(*e.pool));
      if (needCts) e.cts.reset(new dispenso::ConcurrentTaskSet(*e.pool));
    }
    {
      dispenso::Future<R> root;
      switch (s.rootSched) {
        case kSPool: root = makeRoot<R>(c, *e.pool); break;
        case kSTaskSet: root = makeRoot<R>(c, *e.ts); break;
        case kSCTaskSet: root = makeRoot<R>(c, *e.cts); break;
        case kSImmediate: root = makeRoot<R>(c, dispenso::kImmediateInvoker); break;
        case kSNewThread: root = makeRoot<R>(c, e.nti); break;
        default: root = makeRoot<R>(c, e.manual); break;
      }
      std::vector<std::thread> th;
      std::thread runner;
      if (s.script == kRandom) {
        for (int k = 0; k < s.registrars; ++k) th.emplace_back(registrarThread<R>, &c, &e, dispenso::Future<R>(root), k);
        if (s.rootSched == kSManual && s.rootDelayUs >= 0) {
          runner = std::thread([&c, &e, &s]() {
            RoleScope role(kRoleRunner);
            while (!c.go.load(std::memory_order_relaxed)) {
              sched_yield();
            }
            if (s.rootDelayUs) vrt::spinFor(s.rootDelayUs);
            e.manual.run(0);
          });
        }
        while (c.arrived.load(std::memory_order_relaxed) < s.registrars) {
          usleep(10);
          vrt::progress(); // pure harness phase (threads starting up)
        }
        c.go.store(true, std::memory_order_relaxed);
        if (s.gate) {
          vrt::spinFor(s.rootDelayUs > 0 ? s.rootDelayUs : 20);
          e.gate.release();
        }
        for (auto& t : th) t.join();
        if (runner.joinable()) runner.join();
      } else {
        // ---- scripted interleavings; root on the manual invoker, node 0 registered up front by this
        // thread (it sits in the chain), node 1 registered by thread R, node 2 (if any) by R after it
        c.go.store(true, std::memory_order_relaxed);
        registerNode<R>(c, e, root, 0);
        dispenso::Future<R> rootCopy(root);
        auto regRest = [&c, &e, &rootCopy, N]() {
          for (int i = 1; i < N; ++i) registerNode<R>(c, e, rootCopy, i);
        };
        if (s.script == kTestThenDrainThenPush || s.script == kPushThenDrain) {
          int site = s.script == kTestThenDrainThenPush ? V::kFutureThenAfterReadyTest : V::kFutureThenAfterPush;
          vrt::gateArm(site);
          std::thread regThread(regRest);
          bool arrived = vrt::gateWaitArrived(site, 8000);
          if (!arrived) out.inconclusive = "gate not reached";
          {
            RoleScope role(kRoleRunner);
            e.manual.run(0); // the root completes entirely: notify + chain drain
          }
          uint64_t drained = vrt::stamp();
          (void)drained;
          vrt::gateOpen(site);
          regThread.join();
          if (arrived) out.cls.push_back(s.script == kTestThenDrainThenPush ? "reg:window-test-drain-push" : "reg:window-push-drain-recheck");
        } else {
          int site = s.script == kNotifyThenRegister ? V::kFutureRunAfterNotify : V::kFutureRunAfterCas;
          vrt::gateArm(site);
          runner = std::thread([&e]() {
            RoleScope role(kRoleRunner);
            e.manual.run(0);
          });
          bool arrived = vrt::gateWaitArrived(site, 8000);
          if (!arrived) out.inconclusive = "gate not reached";
          c.casArrivedStamp.store(vrt::stamp(), std::memory_order_relaxed);
          std::thread regThread(regRest);
          regThread.join();
          vrt::gateOpen(site);
          runner.join();
          if (arrived) out.cls.push_back(s.script == kNotifyThenRegister ? "reg:window-notify-register-drain" : "reg:window-cas-register-finish");
        }
        // direct verdict for immediate continuations: root's run() and every then() call have
        // returned, so each continuation scheduled on the ImmediateInvoker must have run by now
        for (int i = 0; i < N; ++i) {
          const NodeSpec& n = s.nodes[static_cast<size_t>(i)];
          bool chainImmediate = n.sched == kSImmediate && (n.parent < 0 || s.nodes[static_cast<size_t>(n.parent)].sched == kSImmediate);
          if (chainImmediate && c.obs[i].runs.load() == 0 && !n.earlyGet) {
            vrt::violation("continuation lost: antecedent is ready, then() returned, the ImmediateInvoker continuation never ran", J().kv("node", i).kv("spec", s.json()), "lost");
            _exit(5); // its future can never complete; tearing the case down would hang
          }
        }
      }
      {
        RoleScope role(kRoleRunner);
        e.manual.runPending();
      }
      e.gate.release();
      if (!waitAllRan(c, e)) {
        std::vector<int> missing;
        for (int i = 0; i < N; ++i) {
          if (c.obs[i].runs.load() == 0) missing.push_back(i);
        }
        vrt::violation("continuation lost: every thread has returned, the pool is idle and no NewThreadInvoker thread is alive, but a continuation never ran", J().arr("nodes", missing).kv("spec", s.json()), "lost");
        _exit(5); // the lost continuation's future (and any task set it is registered with) can never complete
      }
      {
        RoleScope role(kRoleDrain);
        if (e.ts) {
          e.ts->wait();
          for (int i = 0; i < N; ++i) {
            if (s.nodes[static_cast<size_t>(i)].sched == kSTaskSet && !c.fut[i].is_ready()) tsNotReady.push_back(i);
          }
        }
        if (e.cts) {
          e.cts->wait();
          for (int i = 0; i < N; ++i) {
            if (s.nodes[static_cast<size_t>(i)].sched == kSCTaskSet && !c.fut[i].is_ready()) tsNotReady.push_back(i);
          }
        }
        e.ts.reset();
        e.cts.reset();
        // NewThreadInvoker threads may still dispatch (already executed) continuations onto the pool:
        // join them while the pool is alive, then the pool, then whatever the pool's workers spawned
        dispenso::detail::drainNewThreadInvokerThreads();
        e.pool.reset();
        dispenso::detail::drainNewThreadInvokerThreads();
      }
    }
    // ---- verdicts that need the futures
    for (int i : tsNotReady) {
      vrt::violation("taskSet.wait() returned but the continuation future registered with it is not ready", J().kv("node", i).kv("spec", s.json()), "taskset-wait");
    }
    for (int i = 0; i < N && !lostDirect; ++i) {
      const NodeSpec& n = s.nodes[static_cast<size_t>(i)];
      NodeObs& o = c.obs[i];
      J d;
      d.kv("node", i).kv("parent", n.parent).kv("sched", schedName(n.sched)).kv("spec", s.json());
      int runs = o.runs.load();
      if (runs != 1) vrt::violation("continuation executed " + std::to_string(runs) + " times", d, "runs");
      if (o.antReady.load() == 0) vrt::violation("continuation entered while its antecedent was not ready", d, "not-ready");
      long expParentEx = n.parent < 0 ? (s.rootThrows ? c.rootEx : 0) : c.exOf[n.parent];
      long expParentVal = n.parent < 0 ? c.rootVal : c.val[n.parent];
      if (expParentEx) {
        if (o.sawEx.load() != expParentEx) vrt::violation("continuation did not see its antecedent's exception", d.kv("sawEx", o.sawEx.load()).kv("expected", expParentEx), "value");
      } else if (o.sawEx.load() || o.saw.load() != expParentVal) {
        vrt::violation("continuation saw a wrong antecedent value", d.kv("saw", o.saw.load()).kv("sawEx", o.sawEx.load()).kv("expected", expParentVal), "value");
      }
      if (!c.fut[i].is_ready()) {
        vrt::violation("continuation ran and everything was torn down, but its future is not ready", d, "result-not-ready");
      } else {
        try {
          long v = c.fut[i].get().tag;
          if (n.throws) vrt::violation("continuation threw but get() returned normally", d, "value");
          else if (v != c.val[i]) vrt::violation("continuation future holds a wrong value", d.kv("got", v).kv("expected", c.val[i]), "value");
        } catch (const CaseEx& ex) {
          if (!n.throws || ex.id != c.exOf[i]) vrt::violation("continuation future rethrows an unexpected exception", d.kv("id", ex.id), "value");
        }
      }
      if (n.earlyGet) {
        if (n.throws ? !(o.earlyThrew && o.earlyEx == c.exOf[i]) : !(o.earlyGot && o.earlyVal == c.val[i])) {
          vrt::violation("get() on a continuation future right after then() returned a wrong result", d.kv("got", o.earlyVal).kv("threw", o.earlyThrew), "value");
        }
      }
    }
    int rr = c.rootRuns.load();
    if (rr != 1) vrt::violation("root functor executed " + std::to_string(rr) + " times", J().kv("spec", s.json()), "root-runs", "C18");
    for (int i = 0; i < N; ++i) c.fut[i] = dispenso::Future<Payload>();
    c.refTarget.reset();
  }
  clearPerturb();
  vrt::watchdogIdleFlatIsHang(false);
  if (!lostDirect) lifeVerdict("C19 then");

  // ---- coverage: registration classes from the logical stamps
  uint64_t rEntry = c.rootEntry.load(), rExit = c.rootExit.load();
  int before = 0, during = 0, after = 0;
  for (int i = 0; i < N; ++i) {
    const NodeSpec& n = s.nodes[static_cast<size_t>(i)];
    const NodeObs& o = c.obs[i];
    uint64_t pEntry = n.parent < 0 ? rEntry : c.obs[n.parent].entry.load();
    uint64_t pExit = n.parent < 0 ? rExit : c.obs[n.parent].exit.load();
    if (o.parentReadyBefore) ++after;
    else if (o.thenRet < pEntry) ++before;
    else if (o.thenCall > pEntry && o.thenRet < pExit) ++during;
  }
  if (before) out.cls.push_back("reg:before-start");
  if (during) out.cls.push_back("reg:during-run");
  if (after) out.cls.push_back("reg:after-ready");
  static const char* sh[] = {"shape:chain", "shape:tree", "shape:star"};
  out.cls.push_back(sh[s.shape]);
  out.cls.push_back(std::string("root:") + schedName(s.rootSched));
  bool sc[6] = {false};
  bool early = false, thr = false;
  for (auto& n : s.nodes) {
    sc[n.sched] = true;
    early = early || n.earlyGet;
    thr = thr || n.throws;
  }
  for (int k = 0; k < 5; ++k) {
    if (sc[k]) out.cls.push_back(std::string("cont:") + schedName(k));
  }
  if (early) out.cls.push_back("early-get");
  if (thr || s.rootThrows) out.cls.push_back("exception-propagation");
  if (s.registrars >= 2) out.cls.push_back("multi-registrar");
  if (N >= 20) out.cls.push_back("long-program");
  if ((sc[kSTaskSet] || sc[kSCTaskSet]) && tsNotReady.empty()) out.cls.push_back("taskset-wait-implies-ready");
  out.nontrivial = N >= 1;
  out.stats = J().kv("nodes", N).kv("before", before).kv("during", during).kv("after", after).kv("totalRuns", c.totalRuns.load());
  return out;
}

Spec gen(vrt::Rng& r, long k) {
  Spec s;
  uint64_t x = r.below(100);
  s.script = x < 72 ? kRandom : x < 80 ? kTestThenDrainThenPush : x < 87 ? kPushThenDrain : x < 94 ? kNotifyThenRegister : kCasThenRegister;
  if (k < 5) s.script = static_cast<int>(k);
  s.rootRes = static_cast<int>(r.below(3));
  s.rootThrows = r.chance(0.12);
  s.pool = static_cast<int>(r.range(1, 4));
  if (r.chance(0.06)) s.pool = 0;
  static const int dw[] = {0, 10, 100, 400, 800};
  s.rootDwellUs = dw[r.below(5)];
  auto pickSched = [&r]() {
    static const int sc[] = {kSImmediate, kSImmediate, kSPool, kSPool, kSTaskSet, kSCTaskSet, kSNewThread};
    return sc[r.below(7)];
  };
  if (s.script == kRandom) {
    static const int rs[] = {kSManual, kSManual, kSManual, kSPool, kSPool, kSTaskSet, kSCTaskSet, kSImmediate, kSNewThread};
    s.rootSched = rs[r.below(9)];
    s.rootDelayUs = r.chance(0.1) ? -1 : static_cast<int>(r.below(300));
    s.gate = (s.rootSched <= kSCTaskSet && s.pool > 0 && r.chance(0.4)) ? 1 : 0;
    s.registrars = static_cast<int>(r.range(1, kMaxRegistrars));
    s.shape = static_cast<int>(r.below(3));
    s.perturb = static_cast<int>(r.below(3));
    s.spurious = r.chance(0.2);
    int N;
    uint64_t y = r.below(100);
    if (y < 50) N = static_cast<int>(r.range(1, 8));
    else if (y < 85) N = static_cast<int>(r.range(9, 24));
    else N = static_cast<int>(r.range(25, 50));
    if (s.shape == 2 && N > 8 * s.registrars) N = 8 * s.registrars; // fan-out <= 8 per handle
    std::vector<int> last(static_cast<size_t>(s.registrars), -1); // last node of each registrar
    std::vector<int> kids(static_cast<size_t>(N) + 1, 0);
    int tsOwner = static_cast<int>(r.below(static_cast<uint64_t>(s.registrars)));
    for (int i = 0; i < N; ++i) {
      NodeSpec n;
      n.registrar = static_cast<int>(r.below(static_cast<uint64_t>(s.registrars)));
      if (s.shape == 0) n.parent = last[static_cast<size_t>(n.registrar)];
      else if (s.shape == 2) n.parent = -1;
      else {
        // tree: a random earlier node of the same registrar (or the root), fan-out <= 8
        std::vector<int> cand;
        cand.push_back(-1);
        for (int j = 0; j < i; ++j) {
          if (s.nodes[static_cast<size_t>(j)].registrar == n.registrar && kids[static_cast<size_t>(j)] < 8) cand.push_back(j);
        }
        n.parent = cand[r.below(cand.size())];
      }
      if (n.parent >= 0) kids[static_cast<size_t>(n.parent)]++;
      n.sched = pickSched();
      // a TaskSet is used by one thread only: the registrar that owns it (and this thread afterwards)
      if (n.sched == kSTaskSet && n.registrar != tsOwner) n.sched = kSCTaskSet;
      n.async = r.chance(0.4);
      n.deferred = !r.chance(0.25);
      n.throws = r.chance(0.07);
      n.earlyGet = r.chance(0.08);
      n.preDelayUs = r.chance(0.5) ? 0 : static_cast<int>(r.below(N > 20 ? 30 : 200));
      last[static_cast<size_t>(n.registrar)] = i;
      s.nodes.push_back(n);
    }
  } else {
    s.rootSched = kSManual;
    s.registrars = 1;
    s.shape = 2;
    s.perturb = 0;
    int N = static_cast<int>(r.range(2, 3));
    for (int i = 0; i < N; ++i) {
      NodeSpec n;
      n.parent = i == 2 ? 1 : -1;
      if (i == 2) s.shape = 1;
      n.sched = r.chance(0.6) ? kSImmediate : pickSched();
      if (n.sched == kSTaskSet && i == 0) n.sched = kSCTaskSet; // node 0 is registered by this thread, 1.. by R
      n.async = r.chance(0.4);
      n.deferred = !r.chance(0.25);
      n.throws = r.chance(0.05);
      s.nodes.push_back(n);
    }
  }
  return s;
}

std::string keyOf(const Spec& s) {
  static const char* rn[] = {"value", "void", "ref"};
  std::string k = std::string("then/") + kScriptNames[s.script] + "/root-" + schedName(s.rootSched) + "/" + rn[s.rootRes];
  bool sc[6] = {false};
  for (auto& n : s.nodes) sc[n.sched] = true;
  k += "/cont";
  static const char* ab[] = {"P", "T", "C", "I", "N"};
  for (int i = 0; i < 5; ++i) {
    if (sc[i]) k += ab[i];
  }
  return k;
}

} // namespace

void runC19Then(long base, long n) {
  for (long k = 0; k < n; ++k) {
    long idx = base + k;
    if (!vrt::selected(idx)) continue;
    vrt::Rng r = vrt::caseRng(idx);
    Spec s = gen(r, k);
    vrt::caseBegin(idx, keyOf(s), s.json());
    vrt::watchdogArm();
    Outcome o = s.rootRes == 0 ? runProgram<Payload>(s, idx) : s.rootRes == 1 ? runProgram<void>(s, idx) : runProgram<Payload&>(s, idx);
    vrt::watchdogDisarm();
    if (!o.inconclusive.empty()) vrt::inconclusive(o.inconclusive);
    o.cls.push_back(std::string("script:") + kScriptNames[s.script]);
    vrt::caseEnd(o.stats, o.nontrivial ? s.json().str() : "", o.cls);
  }
}
