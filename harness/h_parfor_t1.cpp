#include "h_parfor_impl.h"

Obs runSpec_t1(const Spec& s) {
  return runSpecT<uint8_t>(s);
}
