// C18: a Future's functor runs exactly once and every getter sees its result.
#include "h_future_common.h"

namespace {

struct Spec {
  int sched = 0;
  int pool = 2;
  bool async = false, deferred = true;
  int res = 0; // 0 value, 1 reference, 2 void
  bool throws = false;
  int waiters = 2;
  int ops = 4;
  int gate = 0; // 0 none, 1 release after a short delay, 2 release after the waiters are done
  int perturb = 0;
  bool spurious = false, prewait = false;
  bool dropOriginal = false;
  int dwellUs = 0;
  int manualDelayUs = 0;
  bool simultaneous = false; // every waiter's first operation is get(), all released together
  J json() const {
    const char* rn[] = {"value", "ref", "void"};
    return J().kv("sched", schedName(sched)).kv("pool", pool).kv("async", async).kv("deferred", deferred).kv("res", rn[res])
        .kv("throws", throws).kv("waiters", waiters).kv("ops", ops).kv("gate", gate).kv("perturb", perturb)
        .kv("spurious", spurious).kv("prewait", prewait).kv("dropOriginal", dropOriginal).kv("dwellUs", dwellUs)
        .kv("manualDelayUs", manualDelayUs).kv("simultaneous", simultaneous);
  }
};

enum Op : uint8_t { kGet, kWait, kWaitFor, kWaitUntil, kIsReady, kCopy, kMove, kDestroy, kAssign, kNumOps };
const char* const kOpNames[] = {"get", "wait", "wait_for", "wait_until", "is_ready", "copy", "move", "destroy", "assign"};

struct Rec {
  uint8_t op = 0;
  bool threw = false, threwOther = false, sane = false, readyAfter = false, statusReady = false;
  const void* addr = nullptr;
  long exId = 0;
  uint64_t s0 = 0, s1 = 0;
};

constexpr int kMaxWaiters = 6;
constexpr int kMaxOps = 10;

struct Ctx {
  Spec s;
  long tag = 0;
  long exId = 0;
  std::atomic<int> runs{0}, inflight{0}, overlap{0};
  std::atomic<int> ranRole{-1};
  std::atomic<int> ranInTimedNonDeferred{0};
  std::atomic<uint64_t> entry{0}, exit{0};
  std::unique_ptr<Payload> refTarget;
  std::atomic<int> arrived{0};
  std::atomic<bool> go{false};
  Rec recs[kMaxWaiters][kMaxOps + 2];
  int nrec[kMaxWaiters] = {0};
};

struct FnBase {
  Ctx* c;
  FnGuts g;
  explicit FnBase(Ctx* cc) : c(cc) {}
  void enter() {
    int n = c->runs.fetch_add(1, std::memory_order_relaxed);
    if (c->inflight.fetch_add(1, std::memory_order_relaxed) != 0) c->overlap.fetch_add(1, std::memory_order_relaxed);
    if (n == 0) {
      c->ranRole.store(tl_role, std::memory_order_relaxed);
      c->entry.store(vrt::stamp(), std::memory_order_relaxed);
    }
    if (tl_inTimedWait && !c->s.deferred) c->ranInTimedNonDeferred.fetch_add(1, std::memory_order_relaxed);
    if (n == 1) vrt::violation("functor executed a second time", J().kv("spec", c->s.json())); // reported at once: the second run usually corrupts the functor
    if (n > 64) {
      vrt::violation("functor storm: executed more than 64 times", J().kv("runs", n));
      _exit(5);
    }
    if (c->s.dwellUs) vrt::spinFor(c->s.dwellUs);
    vrt::progress();
  }
  void leave() {
    c->exit.store(vrt::stamp(), std::memory_order_relaxed);
    c->inflight.fetch_sub(1, std::memory_order_relaxed);
  }
};
template <typename R>
struct Fn;
template <>
struct Fn<Payload> : FnBase {
  using FnBase::FnBase;
  Payload operator()() {
    enter();
    if (c->s.throws) {
      leave();
      throw CaseEx{c->exId};
    }
    Payload p(c->tag);
    leave();
    return p;
  }
};
template <>
struct Fn<Payload&> : FnBase {
  using FnBase::FnBase;
  Payload& operator()() {
    enter();
    leave();
    if (c->s.throws) throw CaseEx{c->exId};
    return *c->refTarget;
  }
};
template <>
struct Fn<void> : FnBase {
  using FnBase::FnBase;
  void operator()() {
    enter();
    leave();
    if (c->s.throws) throw CaseEx{c->exId};
  }
};

template <typename R>
struct Getter;
template <>
struct Getter<Payload> {
  static void get(const dispenso::Future<Payload>& f, Ctx& c, Rec& r) {
    const Payload& p = f.get();
    r.addr = &p;
    r.sane = p.sane(c.tag);
  }
};
template <>
struct Getter<Payload&> {
  static void get(const dispenso::Future<Payload&>& f, Ctx& c, Rec& r) {
    Payload& p = f.get();
    r.addr = &p;
    r.sane = &p == c.refTarget.get() && p.sane(c.tag);
  }
};
template <>
struct Getter<void> {
  static void get(const dispenso::Future<void>& f, Ctx&, Rec& r) {
    f.get();
    r.sane = true;
  }
};

template <typename R>
void waiterBody(Ctx* c, int w, dispenso::Future<R> mine, uint64_t seed) {
  RoleScope role(kRoleWaiter);
  vrt::Rng r(seed);
  std::vector<dispenso::Future<R>> own;
  own.reserve(kMaxOps + 2);
  own.push_back(std::move(mine));
  c->arrived.fetch_add(1, std::memory_order_relaxed);
  while (!c->go.load(std::memory_order_relaxed)) {
    sched_yield();
  }
  if (!c->s.simultaneous && r.chance(0.6)) vrt::spinFor(static_cast<int>(r.below(150)));
  int& n = c->nrec[w];
  for (int k = 0; k < c->s.ops && !own.empty(); ++k) {
    Rec& rec = c->recs[w][n];
    int op;
    if (k == 0 && c->s.simultaneous) {
      op = kGet;
    } else {
      uint64_t x = r.below(100);
      op = x < 26 ? kGet : x < 38 ? kWait : x < 50 ? kWaitFor : x < 58 ? kWaitUntil : x < 68 ? kIsReady : x < 78 ? kCopy : x < 85 ? kMove : x < 94 ? kDestroy : kAssign;
    }
    size_t i = r.below(own.size());
    rec.op = static_cast<uint8_t>(op);
    rec.s0 = vrt::stamp();
    switch (op) {
      case kGet:
        try {
          Getter<R>::get(own[i], *c, rec);
        } catch (const CaseEx& e) {
          rec.threw = true;
          rec.exId = e.id;
        } catch (...) {
          rec.threw = rec.threwOther = true;
        }
        rec.readyAfter = own[i].is_ready();
        break;
      case kWait:
        own[i].wait();
        rec.readyAfter = own[i].is_ready();
        break;
      case kWaitFor: {
        static const int us[] = {0, 0, 1, 20, 200, 1000};
        ++tl_inTimedWait;
        auto st = own[i].wait_for(std::chrono::microseconds(us[r.below(6)]));
        --tl_inTimedWait;
        rec.statusReady = st == std::future_status::ready;
        rec.readyAfter = own[i].is_ready();
        break;
      }
      case kWaitUntil: {
        static const int us[] = {-50, 0, 30, 300, 1000};
        auto tp = std::chrono::steady_clock::now() + std::chrono::microseconds(us[r.below(5)]);
        ++tl_inTimedWait;
        auto st = own[i].wait_until(tp);
        --tl_inTimedWait;
        rec.statusReady = st == std::future_status::ready;
        rec.readyAfter = own[i].is_ready();
        break;
      }
      case kIsReady:
        rec.readyAfter = own[i].is_ready();
        break;
      case kCopy:
        own.push_back(own[i]);
        break;
      case kMove: {
        dispenso::Future<R> m(std::move(own[i]));
        own[i] = std::move(m);
        if (r.chance(0.5)) {
          dispenso::Future<R> sh = own[i].share();
          own[i] = sh; // copy-assign over the moved-from (invalid) handle
        }
        break;
      }
      case kDestroy:
        own[i] = std::move(own.back());
        own.pop_back();
        break;
      case kAssign: {
        size_t j = r.below(own.size());
        own[i] = own[j];
        break;
      }
    }
    rec.s1 = vrt::stamp();
    ++n;
    vrt::progress();
  }
  own.clear();
}

template <typename R, typename S>
dispenso::Future<R> construct(Ctx& c, S& sched) {
  RoleScope role(kRoleCtor);
  return dispenso::Future<R>(Fn<R>(&c), sched, asyncPol(c.s.async), deferredPol(c.s.deferred));
}

struct Outcome {
  std::vector<std::string> cls;
  bool nontrivial = false;
  J stats;
};

template <typename R>
Outcome runCase(const Spec& s, long idx) {
  Outcome out;
  std::unique_ptr<Ctx> cp(new Ctx);
  Ctx& c = *cp;
  c.s = s;
  vrt::Rng r = vrt::caseRng(idx, 77);
  c.tag = 1000 + static_cast<long>(r.below(1000000));
  c.exId = 5000 + static_cast<long>(r.below(1000));
  vrt::lifeReset();
  applyPerturb(s.perturb, s.spurious, s.prewait);
  {
    c.refTarget.reset(new Payload(c.tag));
    std::unique_ptr<dispenso::ThreadPool> pool;
    std::unique_ptr<dispenso::TaskSet> ts;
    std::unique_ptr<dispenso::ConcurrentTaskSet> cts;
    ManualInvoker manual;
    dispenso::NewThreadInvoker nti;
    PoolGate gate;
    if (s.sched <= kSCTaskSet) {
      pool.reset(new dispenso::ThreadPool(static_cast<size_t>(s.pool)));
      if (s.gate && s.pool > 0) gate.block(*pool, s.pool);
      if (s.sched == kSTaskSet) ts.reset(new dispenso::TaskSet(*pool));
      if (s.sched == kSCTaskSet) cts.reset(new dispenso::ConcurrentTaskSet(*pool));
    }
    std::vector<std::thread> threads;
    {
      dispenso::Future<R> orig;
      switch (s.sched) {
        case kSPool: orig = construct<R>(c, *pool); break;
        case kSTaskSet: orig = construct<R>(c, *ts); break;
        case kSCTaskSet: orig = construct<R>(c, *cts); break;
        case kSImmediate: orig = construct<R>(c, dispenso::kImmediateInvoker); break;
        case kSNewThread: orig = construct<R>(c, nti); break;
        default: orig = construct<R>(c, manual); break;
      }
      for (int w = 0; w < s.waiters; ++w) {
        dispenso::Future<R> copy(orig);
        threads.emplace_back(waiterBody<R>, &c, w, std::move(copy), r.next());
      }
      std::thread runner;
      if (s.sched == kSManual && s.manualDelayUs >= 0) {
        runner = std::thread([&manual, &c, &s]() {
          RoleScope role(kRoleRunner);
          while (!c.go.load(std::memory_order_relaxed)) {
            sched_yield();
          }
          if (s.manualDelayUs) vrt::spinFor(s.manualDelayUs);
          manual.run(0);
        });
      }
      while (c.arrived.load(std::memory_order_relaxed) < s.waiters) {
        usleep(10);
        vrt::progress(); // pure harness phase (threads starting up): nothing of dispenso can block here
      }
      c.go.store(true, std::memory_order_relaxed);
      if (s.dropOriginal) orig = dispenso::Future<R>();
      if (s.gate == 1) {
        vrt::spinFor(static_cast<int>(r.below(300)));
        gate.release();
      }
      for (auto& t : threads) t.join();
      if (runner.joinable()) runner.join();
      gate.release();
      if (!s.dropOriginal && r.chance(0.5)) {
        // the original handle outlives every copy: one more get() after all waiters are gone
        RoleScope role(kRoleWaiter);
        Rec& rec = c.recs[0][c.nrec[0]];
        rec.op = kGet;
        rec.s0 = vrt::stamp();
        try {
          Getter<R>::get(orig, c, rec);
        } catch (const CaseEx& e) {
          rec.threw = true;
          rec.exId = e.id;
        } catch (...) {
          rec.threw = rec.threwOther = true;
        }
        rec.readyAfter = orig.is_ready();
        rec.s1 = vrt::stamp();
        ++c.nrec[0];
      }
    }
    {
      RoleScope role(kRoleDrain);
      if (s.sched == kSManual) {
        RoleScope role2(kRoleRunner);
        manual.runPending();
      }
      ts.reset();
      cts.reset();
      pool.reset();
      if (s.sched == kSNewThread) dispenso::detail::drainNewThreadInvokerThreads();
    }
    c.refTarget.reset();
  }
  clearPerturb();

  // ---- verdicts
  int runs = c.runs.load();
  if (runs == 0 || runs > 2) {
    vrt::violation("functor executed " + std::to_string(runs) + " times", J().kv("runs", runs).kv("overlap", c.overlap.load()).kv("spec", s.json()));
  }
  if (c.ranInTimedNonDeferred.load()) {
    vrt::violation("non-deferred future: functor executed by a thread inside wait_for/wait_until", J().kv("spec", s.json()), "timed-inline", "C20");
  }
  const void* firstAddr = nullptr;
  int gets = 0, getsDuringRun = 0, getThreads = 0;
  uint64_t en = c.entry.load(), ex = c.exit.load();
  for (int w = 0; w < s.waiters; ++w) {
    bool any = false;
    for (int k = 0; k < c.nrec[w]; ++k) {
      const Rec& rec = c.recs[w][k];
      J d;
      d.kv("waiter", w).kv("opIndex", k).kv("op", kOpNames[rec.op]).kv("spec", s.json());
      if (rec.op == kGet) {
        ++gets;
        any = true;
        if (rec.s0 > en && en && rec.s0 < ex) ++getsDuringRun;
        if (s.throws) {
          if (!rec.threw) vrt::violation("get() returned normally although the functor threw", d, "exception");
          else if (rec.threwOther || rec.exId != c.exId) vrt::violation("get() rethrew a different exception", d.kv("exId", rec.exId).kv("expected", c.exId), "exception");
        } else {
          if (rec.threw) vrt::violation("get() threw although the functor returned normally", d, "exception");
          else {
            if (!rec.sane) vrt::violation("get() returned an object that is not the functor's result (wrong value / destroyed / not yet constructed)", d.kv("expectedTag", c.tag));
            if (s.res != 2) {
              if (!firstAddr) firstAddr = rec.addr;
              else if (firstAddr != rec.addr) vrt::violation("two get() calls returned different result objects", d);
            }
          }
        }
        if (!rec.readyAfter) vrt::violation("get() returned but is_ready() is false", d);
      } else if (rec.op == kWait) {
        if (!rec.readyAfter) vrt::violation("wait() returned but is_ready() is false", d, "wait-not-ready");
      } else if (rec.op == kWaitFor || rec.op == kWaitUntil) {
        if (rec.statusReady && !rec.readyAfter) vrt::violation("timed wait reported ready but is_ready() is false", d, "timed-ready-not-ready", "C20");
      }
    }
    if (any) ++getThreads;
  }
  lifeVerdict("C18");

  // ---- coverage
  int role = c.ranRole.load();
  const char* ran = role == kRoleWaiter ? "ran:waiter-inline"
      : role == kRoleCtor               ? "ran:ctor-inline"
      : role == kRoleDrain              ? "ran:drain"
      : role == kRoleRunner             ? "ran:manual-runner"
      : s.sched == kSNewThread          ? "ran:new-thread"
                                        : "ran:pool-worker";
  out.cls.push_back(ran);
  out.cls.push_back(std::string("sched:") + schedName(s.sched));
  static const char* rn[] = {"res:value", "res:ref", "res:void"};
  out.cls.push_back(rn[s.res]);
  if (s.throws) out.cls.push_back("throws");
  if (s.gate && s.pool > 0 && s.sched <= kSCTaskSet) out.cls.push_back("gated");
  if (getThreads >= 2) out.cls.push_back("multi-getter");
  if (getsDuringRun) out.cls.push_back("get-during-run");
  if (s.dropOriginal) out.cls.push_back("original-dropped");
  if (!s.deferred) out.cls.push_back("not-deferred");
  if (s.async) out.cls.push_back("async");
  if (s.pool == 0 && s.sched <= kSCTaskSet) out.cls.push_back("pool0");
  out.nontrivial = s.waiters >= 2 && gets >= 1;
  out.stats = J().kv("runs", runs).kv("gets", gets).kv("getsDuringRun", getsDuringRun).kv("ran", ran).raw("life", vrt::lifeJson().str());
  return out;
}

Spec gen(vrt::Rng& r) {
  Spec s;
  s.sched = static_cast<int>(r.below(6));
  s.pool = static_cast<int>(r.range(0, 4));
  if (r.chance(0.8) && s.pool == 0) s.pool = static_cast<int>(r.range(1, 4));
  s.async = r.chance(0.5);
  s.deferred = !r.chance(0.3);
  s.res = static_cast<int>(r.below(3));
  s.throws = r.chance(0.2);
  s.waiters = static_cast<int>(r.range(1, kMaxWaiters));
  s.ops = static_cast<int>(r.range(1, 8));
  s.gate = (s.sched <= kSCTaskSet && s.pool > 0 && r.chance(0.5)) ? static_cast<int>(r.range(1, 2)) : 0;
  s.perturb = static_cast<int>(r.below(3));
  s.spurious = r.chance(0.3);
  s.prewait = r.chance(0.3);
  s.dropOriginal = r.chance(0.4);
  static const int dw[] = {0, 0, 5, 50, 300};
  s.dwellUs = dw[r.below(5)];
  s.manualDelayUs = s.sched == kSManual ? (r.chance(0.2) ? -1 : r.chance(0.4) ? 0 : static_cast<int>(r.below(200))) : 0;
  s.simultaneous = r.chance(0.35);
  return s;
}

std::string keyOf(const Spec& s) {
  const char* rn[] = {"value", "ref", "void"};
  return std::string("future/") + schedName(s.sched) + "/" + (s.async ? "async" : "notasync") + "/" + (s.deferred ? "deferred" : "notdeferred") + "/" + rn[s.res] + (s.throws ? "/throws" : "/returns") +
      (s.pool == 0 && s.sched <= kSCTaskSet ? "/pool0" : "");
}


// ---------------------------------------------------------------- burst family
// Many rounds per case on fresh futures with persistent waiter threads: in every round all waiters
// (and, for the manual schedulable, the harness thread that invokes the stored function) are released
// into get() / run() by one barrier, so the few-instruction window between the status load and the
// status CAS in run() is hit by volume. The barrier orders only what precedes it (handing each waiter
// its own copy); the racing calls themselves are unordered.
constexpr int kBurstMaxRounds = 32;
struct BurstCtx {
  int sched = 0, waiters = 2, rounds = 8;
  long base = 0;
  std::atomic<int> runs[kBurstMaxRounds];
  std::atomic<int> second{0};
  const void* addr[kMaxWaiters][kBurstMaxRounds];
  long tag[kMaxWaiters][kBurstMaxRounds];
  dispenso::Future<Payload> cp[kMaxWaiters];
  BurstCtx() {
    for (auto& r : runs) r.store(0);
  }
};
struct BurstFn {
  BurstCtx* c;
  int k;
  FnGuts g;
  BurstFn(BurstCtx* cc, int kk) : c(cc), k(kk) {}
  Payload operator()() {
    if (c->runs[k].fetch_add(1, std::memory_order_relaxed) >= 1) {
      c->second.fetch_add(1, std::memory_order_relaxed);
      vrt::violation("functor executed a second time", J().kv("round", k).kv("sched", schedName(c->sched)).kv("waiters", c->waiters));
    }
    vrt::progress();
    return Payload(c->base + k);
  }
};

void runBurst(long idx, vrt::Rng& r) {
  std::unique_ptr<BurstCtx> cp(new BurstCtx);
  BurstCtx& c = *cp;
  static const int scs[] = {kSManual, kSManual, kSPool, kSCTaskSet, kSNewThread};
  c.sched = scs[r.below(5)];
  c.waiters = static_cast<int>(r.range(2, kMaxWaiters));
  c.rounds = static_cast<int>(vrt::g_args.getInt("rounds", VRT_TSAN ? 6 : (VRT_ASAN ? 12 : 32)));
  if (c.rounds > kBurstMaxRounds) c.rounds = kBurstMaxRounds;
  int poolThreads = static_cast<int>(r.range(1, 3));
  bool async = r.chance(0.5);
  c.base = 100 + static_cast<long>(r.below(100000)) * 100;
  J spec = J().kv("sched", schedName(c.sched)).kv("waiters", c.waiters).kv("rounds", c.rounds).kv("pool", poolThreads).kv("async", async);
  std::string key = std::string("burst/") + schedName(c.sched) + (async ? "/async" : "/notasync");
  vrt::caseBegin(idx, key, spec);
  vrt::watchdogArm();
  vrt::lifeReset();
  clearPerturb();
  long wrong = 0, diffAddr = 0, badRuns = 0;
  {
    dispenso::ThreadPool pool(static_cast<size_t>(poolThreads));
    std::unique_ptr<dispenso::ConcurrentTaskSet> cts;
    if (c.sched == kSCTaskSet) cts.reset(new dispenso::ConcurrentTaskSet(pool));
    dispenso::NewThreadInvoker nti;
    vrt::Barrier bar(c.waiters + 1);
    std::vector<std::thread> th;
    for (int w = 0; w < c.waiters; ++w) {
      th.emplace_back([&c, &bar, w]() {
        RoleScope role(kRoleWaiter);
        for (int k = 0; k < c.rounds; ++k) {
          bar.wait();
          const Payload& p = c.cp[w].get();
          c.addr[w][k] = &p;
          c.tag[w][k] = p.sane(c.base + k) ? p.tag : -1;
          bar.wait();
          vrt::progress();
        }
      });
    }
    for (int k = 0; k < c.rounds; ++k) {
      ManualInvoker manual;
      {
        dispenso::Future<Payload> f;
        {
          RoleScope role(kRoleCtor);
          switch (c.sched) {
            case kSManual: f = dispenso::Future<Payload>(BurstFn(&c, k), manual, asyncPol(async)); break;
            case kSPool: f = dispenso::Future<Payload>(BurstFn(&c, k), pool, asyncPol(async)); break;
            case kSCTaskSet: f = dispenso::Future<Payload>(BurstFn(&c, k), *cts, asyncPol(async)); break;
            default: f = dispenso::Future<Payload>(BurstFn(&c, k), nti, asyncPol(async)); break;
          }
        }
        for (int w = 0; w < c.waiters; ++w) c.cp[w] = f;
      }
      bar.wait();
      if (c.sched == kSManual) {
        RoleScope role(kRoleRunner);
        manual.run(0);
      }
      bar.wait();
      for (int w = 0; w < c.waiters; ++w) c.cp[w] = dispenso::Future<Payload>();
    }
    for (auto& t : th) t.join();
    RoleScope role(kRoleDrain);
    cts.reset();
    dispenso::detail::drainNewThreadInvokerThreads();
  }
  dispenso::detail::drainNewThreadInvokerThreads();
  vrt::watchdogDisarm();
  for (int k = 0; k < c.rounds; ++k) {
    if (c.runs[k].load() != 1) ++badRuns;
    for (int w = 0; w < c.waiters; ++w) {
      if (c.tag[w][k] != c.base + k) ++wrong;
      if (c.addr[w][k] != c.addr[0][k]) ++diffAddr;
    }
  }
  if (badRuns && !c.second.load()) vrt::violation("functor run count differs from 1 in " + std::to_string(badRuns) + " rounds", spec);
  if (wrong) vrt::violation("get() returned an object that is not the functor's result in " + std::to_string(wrong) + " calls", spec);
  if (diffAddr) vrt::violation("two get() calls of one round returned different result objects (" + std::to_string(diffAddr) + ")", spec);
  lifeVerdict("C18 burst");
  long evals = static_cast<long>(c.rounds);
  vrt::caseEnd(J().kv("_evals", evals).kv("_nt", evals).kv("badRuns", badRuns), "", {"burst", std::string("burst:") + schedName(c.sched)});
}

} // namespace

void runC18(long base) {
  const long n = vrt::g_args.getInt("n", vrt::thorough() ? 40000 : 2400);
  for (long k = 0; k < n; ++k) {
    long idx = base + k;
    if (!vrt::selected(idx)) continue;
    vrt::Rng r = vrt::caseRng(idx);
    Spec s = gen(r);
    vrt::caseBegin(idx, keyOf(s), s.json());
    vrt::watchdogArm();
    Outcome o = s.res == 0 ? runCase<Payload>(s, idx) : s.res == 1 ? runCase<Payload&>(s, idx) : runCase<void>(s, idx);
    vrt::watchdogDisarm();
    vrt::caseEnd(o.stats, o.nontrivial ? s.json().str() : "", o.cls);
  }
  const long nb = vrt::g_args.getInt("burst", n / 5);
  for (long k = 0; k < nb; ++k) {
    long idx = base + n + k;
    if (!vrt::selected(idx)) continue;
    vrt::Rng r = vrt::caseRng(idx);
    runBurst(idx, r);
  }
}
