#pragma once
// Engine h_pool: C01 (exactly once, by ~ThreadPool), C02 (task-set wait is a barrier), C03 (resize never
// loses / duplicates / strands), C08 (work accounting returns to zero), C47 (ForceQueuingTag never runs
// the functor on the caller).
//
// One op-interpreter drives all five properties: a case is a set of *programs* (lists of submission /
// wait / resize ops) that run on external threads, on the main thread or as pool tasks, against one
// ThreadPool. Every functor handed to dispenso is a `Task` with a unique id; the body only touches
// relaxed monitor counters (monitor-lite, also under TSan) plus one plain slot per id whose visibility
// after wait()/~ThreadPool is what TSan checks.
//
// TUs: h_pool.cpp (monitors, generators, verdicts), h_pool_ops.cpp (pool / task-set submission ops),
// h_pool_fut.cpp (futures, parallel_for).
#include <dispenso/task_set.h>
#include <dispenso/thread_pool.h>

#include <sched.h>
#include <unistd.h>

#include <atomic>
#include <memory>
#include <string>
#include <thread>
#include <vector>

#include "verif_rt.h"

using vrt::J;
namespace V = dispenso::verif;

constexpr uint32_t kMaxIds = 1u << 16;
constexpr uint32_t kNoParent = 0xFFFFFFFFu;

// what a task body does besides counting
enum Act : uint8_t {
  A_NONE = 0,
  A_KIDS_POOL, // k children through pool.schedule
  A_KIDS_POOL_FQ, // k children through pool.schedule(ForceQueuingTag)
  A_KIDS_BULK, // k children through pool.scheduleBulk
  A_KIDS_SET, // k children scheduled onto the ConcurrentTaskSet this task belongs to (self-recursion)
  A_KIDS_SET_BULK, // same through scheduleBulk
  A_NESTED_TS, // body creates its own TaskSet, schedules k children, waits (or lets the dtor wait)
  A_NESTED_CTS,
  A_GATE, // spins until the harness releases the gate tasks
  A_PROGRAM, // runs program k on the executing thread
  A_CHAIN, // recursion chain for the inline-depth cap (h_pool_depth.cpp)
  A_TS_CHAIN_OWNER, // pool task that owns a TaskSet and starts a chain in it
  A_PHASED, // waits for phase 1, force-queues one child, waits for phase 2 (scripted shutdown race)
};
enum : uint8_t { F_FQ = 1, F_FUT = 2, F_CHILD = 4, F_GATE = 8, F_PROBE = 16, F_CONT = 32, F_ROOT = 64 };

// where a body ran
enum Cls : uint8_t {
  C_NOTRUN = 0,
  C_WORKER, // pool thread, dequeued
  C_WORKER_INLINE, // pool thread, inside one of its own submit calls
  C_H_INLINE, // harness thread, inside one of its own submit calls
  C_H_WAIT, // harness thread, inside wait()/tryWait()/task-set destructor
  C_H_DTOR, // thread running ~ThreadPool
  C_H_RESIZE, // thread inside resize()/setSignalingWake()
  C_H_OTHER,
  C_NCLS
};
extern const char* const kClsNames[C_NCLS];

// per task-set completion monitor: sched is bumped before each schedule call, done is the last action
// of each body
struct SetMon {
  std::atomic<long> sched{0}, done{0};
  void* set = nullptr; // the set itself (for self-recursion): ConcurrentTaskSet, or TaskSet for chains run by its owner thread
  int kind = 0; // 1 TaskSet, 2 ConcurrentTaskSet heavy, 3 ConcurrentTaskSet lightweight
};

struct Task {
  uint32_t id;
  uint32_t parent;
  uint8_t act, flags;
  uint16_t k;
  uint16_t dwellUs;
  uint16_t depth;
  int* tok; // heap token, freed by the body
  SetMon* note;
  void operator()() const;
};
// A functor too large for OnceFunction's inline buffer (exercises the spilled storage path).
struct FatTask {
  Task t;
  char pad[72];
  void operator()() const {
    t();
  }
};

struct Op {
  uint8_t kind = 0;
  uint8_t act = A_NONE;
  uint8_t k = 0; // children per task
  uint8_t fat = 0;
  uint16_t n = 1; // bulk count / tryWait budget / resize target / sleep us
  uint16_t dwellUs = 0;
};
enum OpKind : uint8_t {
  O_SCHED = 1, // pool.schedule
  O_SCHED_FQ,
  O_BULK, // pool.scheduleBulk(n)
  O_FUT, // async(pool, f)
  O_FUT_ASYNC, // async(pool, std::launch::async, f)
  O_TS_SCHED, // local set
  O_TS_SCHED_FQ,
  O_TS_BULK,
  O_TS_BULK_FQ,
  O_TS_FUT, // async(set, f)
  O_TS_THEN, // async(set, a).then(b, set)
  O_TS_WHENALL, // when_all(set, futures so far)
  O_TS_PARFOR, // static parallel_for(set, 0, n)
  O_TS_PARFOR_NOWAIT,
  O_TS_WAIT,
  O_TS_TRYWAIT, // loop tryWait(n) until true
  O_G_SCHED, // global ConcurrentTaskSet
  O_G_SCHED_FQ,
  O_G_BULK,
  O_G_BULK_FQ,
  O_G_FUT,
  O_RESIZE, // pool.resize(n)
  O_SETWAKE, // pool.setSignalingWake(n != 0)
  O_SLEEP, // usleep(n)
  O_YIELD,
};

struct Program {
  std::vector<Op> ops;
  int setKind = 0; // local set: 0 none, 1 TaskSet, 2 CTS heavy, 3 CTS lightweight
  int stealMult = 4;
  std::string str() const;
};

struct ThreadLocalState {
  int role = 0; // 0 = not a harness thread (pool worker), 1 = harness thread
  int inSubmit = 0, inWait = 0, inDtor = 0, inResize = 0;
  int chainNest = 0; // chain bodies currently on this thread's stack
  struct Range {
    uint32_t lo, hi;
  } fq[64];
  int fqN = 0;
};
extern thread_local ThreadLocalState tl;

struct Mon {
  std::atomic<uint32_t>* count = nullptr; // invocations per id
  std::atomic<uint8_t>* cls = nullptr; // where it ran
  uint32_t* plain = nullptr; // plain slot written by the body, read after the barrier (TSan oracle)
  int** tok = nullptr;
  uint32_t* parentOf = nullptr;
  uint8_t* flagsOf = nullptr;
  std::atomic<uint32_t> nextId{0};
  std::atomic<long> started{0}, finished{0}, lateRuns{0};
  std::atomic<long> fqInline{0}, fqInlineId{-1};
  std::atomic<long> clsCount[C_NCLS];
  std::atomic<long> barrierChecks{0}, barrierFails{0}, failSched{0}, failDone{0}, failKind{0}, failWhere{0};
  std::atomic<long> futNotReady{0}, futChecked{0};
  std::atomic<long> maxOutstandingAtWait{0};
  std::atomic<long> gatesStarted{0}, programsDone{0};
  std::atomic<int> release{0}, phase{0}, phasedStarted{0}, phasedKidQueued{0};
  std::atomic<bool> poolDead{false}, poolDying{false};
  std::atomic<long> resizes{0}, resizeGrow{0}, resizeShrink{0}, resizeZero{0};
  std::atomic<long> tryWaitFalse{0};
  dispenso::ThreadPool* pool = nullptr;
  dispenso::ConcurrentTaskSet* cts = nullptr;
  SetMon ctsMon;
  std::vector<Program> programs;
};
extern Mon g;

// ---- helpers implemented in h_pool.cpp
uint32_t newIds(uint32_t n); // allocates ids; aborts the process if the id space is exhausted
Task mkTask(uint32_t id, uint8_t act, uint8_t flags, uint16_t k, uint16_t dwellUs, SetMon* note, uint32_t parent, uint16_t depth);
Task mkProto(uint8_t act, uint8_t flags, uint16_t k, uint16_t dwellUs, SetMon* note, uint32_t parent, uint16_t depth); // no id, no token
void checkBarrier(SetMon& m, int where); // done == sched must hold now; where: 1 wait, 2 tryWait, 3 destructor, 4 nested
void runProgram(int j);

struct SubmitScope {
  bool fq;
  SubmitScope(uint32_t lo, uint32_t hi, bool isFq) : fq(isFq) {
    ++tl.inSubmit;
    if (fq && tl.fqN < 64) {
      tl.fq[tl.fqN].lo = lo;
      tl.fq[tl.fqN].hi = hi;
    }
    if (fq) ++tl.fqN;
  }
  ~SubmitScope() {
    if (fq) --tl.fqN;
    --tl.inSubmit;
  }
};
struct WaitScope {
  WaitScope() {
    ++tl.inWait;
  }
  ~WaitScope() {
    --tl.inWait;
  }
};
struct ResizeScope {
  ResizeScope() {
    ++tl.inResize;
  }
  ~ResizeScope() {
    --tl.inResize;
  }
};

// ---- submission ops (h_pool_ops.cpp)
void subPool(dispenso::ThreadPool& p, const Task& t);
void subPoolFat(dispenso::ThreadPool& p, const Task& t);
void subPoolFQ(dispenso::ThreadPool& p, const Task& t);
void subPoolBulk(dispenso::ThreadPool& p, uint32_t base, uint32_t n, const Task& proto);
void subTs(dispenso::TaskSet& s, const Task& t);
void subTs(dispenso::ConcurrentTaskSet& s, const Task& t);
void subTsFat(dispenso::TaskSet& s, const Task& t);
void subTsFat(dispenso::ConcurrentTaskSet& s, const Task& t);
void subTsFQ(dispenso::TaskSet& s, const Task& t);
void subTsFQ(dispenso::ConcurrentTaskSet& s, const Task& t);
void subTsBulk(dispenso::TaskSet& s, uint32_t base, uint32_t n, const Task& proto);
void subTsBulk(dispenso::ConcurrentTaskSet& s, uint32_t base, uint32_t n, const Task& proto);
void subTsBulkFQ(dispenso::TaskSet& s, uint32_t base, uint32_t n, const Task& proto);
void subTsBulkFQ(dispenso::ConcurrentTaskSet& s, uint32_t base, uint32_t n, const Task& proto);
void runKids(const Task& t); // the child-spawning part of a body
void runChain(const Task& t); // h_pool_depth.cpp
void runTsChainOwner(const Task& t); // h_pool_depth.cpp

// ---- futures / parallel_for (h_pool_fut.cpp)
struct FutBox;
FutBox* futBoxNew();
void futBoxFree(FutBox* b);
long futBoxNotReady(FutBox& b); // futures registered with a set that are not is_ready()
long futBoxSetBound(FutBox& b);
void futBoxClearSetBound(FutBox& b);
void subFutPool(dispenso::ThreadPool& p, FutBox& b, const Task& t, bool forceAsync);
void subFutTs(dispenso::TaskSet& s, FutBox& b, const Task& t);
void subFutTs(dispenso::ConcurrentTaskSet& s, FutBox& b, const Task& t);
void subThenTs(dispenso::TaskSet& s, FutBox& b, const Task& a, const Task& c);
void subThenTs(dispenso::ConcurrentTaskSet& s, FutBox& b, const Task& a, const Task& c);
bool subWhenAllTs(dispenso::TaskSet& s, FutBox& b);
bool subWhenAllTs(dispenso::ConcurrentTaskSet& s, FutBox& b);
void subParFor(dispenso::TaskSet& s, uint32_t base, uint32_t n, const Task& proto, bool wait);
void subParFor(dispenso::ConcurrentTaskSet& s, uint32_t base, uint32_t n, const Task& proto, bool wait);
