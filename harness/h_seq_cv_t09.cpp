// C32 instantiations for trait combination heap-compact-asneeded (see h_seq_cv_impl.h)
#include "h_seq_cv_impl.h"

HSEQ_CV_INSTANCE(t9_0, vrt::TrackedT<32>, "e32", false, false, kAsNeeded, "heap-compact-asneeded")
HSEQ_CV_INSTANCE(t9_1, vrt::TrackedT<64>, "e64", false, false, kAsNeeded, "heap-compact-asneeded")
HSEQ_CV_INSTANCE(t9_2, vrt::TrackedT<128>, "e128", false, false, kAsNeeded, "heap-compact-asneeded")
