#include "h_conc_ring.h"
// SPSCRingBuffer instantiations 0..3
template <size_t Cap, bool Round>
using SR = dispenso::SPSCRingBuffer<Item, Cap, Round>;
RingOutcome runSpsc_0(const RingSpec& s) { return runRingT<SR<1, true>, SpscOps<SR<1, true>>>(s); }
RingOutcome runSpsc_1(const RingSpec& s) { return runRingT<SR<1, false>, SpscOps<SR<1, false>>>(s); }
RingOutcome runSpsc_2(const RingSpec& s) { return runRingT<SR<2, false>, SpscOps<SR<2, false>>>(s); }
RingOutcome runSpsc_3(const RingSpec& s) { return runRingT<SR<2, true>, SpscOps<SR<2, true>>>(s); }
