// Engine h_cancel: C04 (cancelled task sets start no further bodies) and C05 (task exceptions are
// captured and rethrown exactly once).  See DESIGN.md section 4 (C04, C05) for the sound scenarios.
#include "h_cancel_util.h"

Mon g_mon;
thread_local int tl_callId = -1;
Sentinel g_sentinel;

static std::atomic<int> g_throwOf[kMaxTasks]; // -1: body does not throw
static std::atomic<uint64_t> g_throwStamp[kMaxTasks];
static std::atomic<int> g_dwellUs{0};
static std::atomic<int> g_barrierNeed{0}, g_barrierArrived{0};
static std::atomic<int> g_callSeq{0};
static std::atomic<int> g_lateId{-1}, g_lateStarted{0}, g_lateGo{0}; // scripted late thrower (C05)
static std::atomic<int> g_cancelerId{-1}; // a body that cancels its own set (C04 D3)
static std::atomic<SetH*> g_cancelSet{nullptr};

// ------------------------------------------------------------------ sentinel
void Sentinel::start() {
#if !VRT_TSAN
  static std::atomic<bool> started{false};
  if (started.exchange(true)) return;
  std::thread([this]() {
    const double T = vrt::thorough() ? 20.0 : 10.0;
    double since = vrt::nowSeconds();
    long lastStarted = -1, lastFinished = -1;
    ssize_t lastOut = -1;
    for (;;) {
      usleep(50000);
      bool stuck = false;
      ssize_t out = 0;
      size_t queued = 0;
      take();
      dispenso::TaskSetBase* s = set.load();
      dispenso::ThreadPool* p = pool.load();
      if (s && p && gatesOpen.load()) {
        out = s->verifOutstanding();
        queued = p->verifQueuedApprox();
        long st = g_mon.started.load(), fi = g_mon.finished.load();
        stuck = out > 0 && queued == 0 && g_mon.inflight.load() == 0 && st == lastStarted && fi == lastFinished && out == lastOut &&
            p->verifWorkRemaining() >= 0;
        lastStarted = st;
        lastFinished = fi;
        lastOut = out;
      }
      give();
      if (!stuck) {
        since = vrt::nowSeconds();
        continue;
      }
      if (vrt::nowSeconds() - since >= T) {
        vrt::violation("task set can never complete: nothing queued in any pool tier, no body running, yet outstandingTaskCount_ > 0",
                       J().kv("outstanding", static_cast<long>(out)).kv("queuedApprox", static_cast<long>(queued)).kv("flat_s", vrt::nowSeconds() - since),
                       "accounting");
        _exit(5);
      }
    }
  }).detach();
#endif
}

// ------------------------------------------------------------------ bodies
struct Body {
  int id;
  std::unique_ptr<long> tok; // heap payload: a skipped destructor is an LSan leak
  explicit Body(int i) : id(i), tok(new long(i)) {}
  Body(Body&&) = default;
  Body& operator=(Body&&) = default;
  void operator()() {
    g_mon.inflight.fetch_add(1, std::memory_order_relaxed);
    g_mon.started.fetch_add(1, std::memory_order_relaxed);
    if (id >= 0 && id < kMaxTasks) {
      g_mon.startStamp[id].store(vrt::stamp(), std::memory_order_relaxed);
      g_mon.runThread[id].store(vrt::threadOrdinal(), std::memory_order_relaxed);
      g_mon.inlineOfCall[id].store(tl_callId, std::memory_order_relaxed);
      g_mon.ran[id].fetch_add(1, std::memory_order_relaxed);
    }
    vrt::progress();
    int d = g_dwellUs.load(std::memory_order_relaxed);
    if (d) vrt::spinFor(d);
    if (id >= 0 && id == g_cancelerId.load(std::memory_order_relaxed)) {
      SetH* cs = g_cancelSet.load(std::memory_order_relaxed);
      if (cs) cs->cancel();
      g_throwStamp[id].store(vrt::stamp(), std::memory_order_relaxed); // taken after cancel() returned
    }
    int thr = (id >= 0 && id < kMaxTasks) ? g_throwOf[id].load(std::memory_order_relaxed) : -1;
    if (thr >= 0) {
      if (id == g_lateId.load(std::memory_order_relaxed)) {
        if (tl_callId >= 0) {
          g_lateStarted.store(2, HS_REL); // run inline inside the scheduling call: holding it would block the scheduler itself
        } else {
          g_lateStarted.store(1, HS_REL);
          while (!g_lateGo.load(HS_ACQ)) vrt::sleepUs(20);
        }
      }
      int need = g_barrierNeed.load(std::memory_order_relaxed);
      if (need > 1) {
        // soft rendezvous so that several throwers throw at (nearly) the same moment; bounded spin
        g_barrierArrived.fetch_add(1, std::memory_order_relaxed);
        for (int spin = 0; spin < 20000 && g_barrierArrived.load(std::memory_order_relaxed) < need; ++spin) {
        }
      }
      g_throwStamp[id].store(vrt::stamp(), std::memory_order_relaxed);
      g_mon.finished.fetch_add(1, std::memory_order_relaxed);
      g_mon.inflight.fetch_sub(1, std::memory_order_relaxed);
      throw VEx{thr};
    }
    g_mon.finished.fetch_add(1, std::memory_order_relaxed);
    g_mon.inflight.fetch_sub(1, std::memory_order_relaxed);
  }
};

static void resetBodies(int n) {
  g_mon.reset(n);
  for (int i = 0; i < n && i < kMaxTasks; ++i) {
    g_throwOf[i].store(-1, std::memory_order_relaxed);
    g_throwStamp[i].store(0, std::memory_order_relaxed);
  }
  g_dwellUs.store(0, std::memory_order_relaxed);
  g_barrierNeed.store(0, std::memory_order_relaxed);
  g_barrierArrived.store(0, std::memory_order_relaxed);
  g_lateId.store(-1, std::memory_order_relaxed);
  g_cancelerId.store(-1, std::memory_order_relaxed);
  g_cancelSet.store(nullptr, std::memory_order_relaxed);
  g_lateStarted.store(0, std::memory_order_relaxed);
  g_lateGo.store(0, std::memory_order_relaxed);
}

static const char* apiName(int a) {
  static const char* n[] = {"schedule", "scheduleFQ", "bulk", "bulkFQ"};
  return n[a];
}
static const char* levelName(bool setOver, bool poolOver) {
  return setOver ? (poolOver ? "both-over" : "set-over") : (poolOver ? "pool-over" : "idle");
}

// One harness-level scheduling call of `count` bodies with ids [firstId, firstId+count).
// Returns the exception id that propagated out of the call, or -1.
static int doSchedule(SetH& set, int api, int firstId, int count, int* callIdOut = nullptr) {
  int cid = g_callSeq.fetch_add(1, std::memory_order_relaxed);
  if (callIdOut) *callIdOut = cid;
  int prev = tl_callId;
  tl_callId = cid;
  int thrown = -1;
  try {
    switch (api) {
      case 0:
        for (int i = 0; i < count; ++i) set.schedule(Body(firstId + i));
        break;
      case 1:
        for (int i = 0; i < count; ++i) set.scheduleFQ(Body(firstId + i));
        break;
      case 2:
        set.bulk(static_cast<size_t>(count), [firstId](size_t i) { return Body(firstId + static_cast<int>(i)); });
        break;
      default:
        set.bulkFQ(static_cast<size_t>(count), [firstId](size_t i) { return Body(firstId + static_cast<int>(i)); });
        break;
    }
  } catch (const VEx& e) {
    thrown = e.id;
  }
  tl_callId = prev;
  vrt::progress(); // a harness step completed (the call returned)
  return thrown;
}

static ssize_t setThreshold(int kind, ssize_t N, ssize_t stealMult) {
  ssize_t lf = stealMult * N;
  if (kind == 1) return std::max<ssize_t>(N + 1, lf / 2);
  return lf;
}

// ================================================================== C04
struct Spec04 {
  char scn = 'A';
  int pool = 2, mult = 32, stealMult = 4, kind = 0;
  int caller = 0;    // 0 external thread, 1 pool-recursive (driver runs inside a raw pool task)
  int level = 0;     // intended: 0 idle 1 set-over 2 pool-over 3 both
  bool hold = true;  // all other workers held in gate tasks
  int preApi = 1;    // 1 scheduleFQ 3 bulkFQ (queued before the cancel; only with hold)
  int preCount = 0;
  int postApi = 0, postCount = 1;
  int cancelBy = 0;  // 0 the scheduling thread itself, 1 another thread (hand-shake)
  int waitMode = 0;  // 0 open gates then wait, 1 wait (waiter runs everything) then open gates
  int depth = 1, siblings = 0;
  int kinds[4] = {0, 0, 0, 0}; // cascade: kind per level (0 = root)
  bool bornCanceled = false;
  int dvar = 1, throwIdx = 0, followers = 4;
  double perturb = 0;
  J json() const {
    J j;
    j.kv("scn", std::string(1, scn)).kv("pool", pool).kv("mult", mult).kv("stealMult", stealMult).kv("kind", kindName(kind));
    j.kv("caller", caller ? "pool-task" : "external").kv("level", level).kv("hold", hold).kv("preApi", apiName(preApi)).kv("preCount", preCount);
    j.kv("postApi", apiName(postApi)).kv("postCount", postCount).kv("cancelBy", cancelBy ? "other-thread" : "self").kv("waitMode", waitMode);
    if (scn == 'C' || scn == 'E') {
      j.kv("depth", depth).kv("siblings", siblings).kv("bornCanceled", bornCanceled);
      j.kv("kinds", std::string(kindName(kinds[0])) + "," + kindName(kinds[1]) + "," + kindName(kinds[2]) + "," + kindName(kinds[3]));
    }
    if (scn == 'D') j.kv("dvar", dvar).kv("throwIdx", throwIdx).kv("followers", followers);
    j.kv("perturb", perturb);
    return j;
  }
  std::string key() const {
    std::string k;
    if (scn == 'A') k = "A";
    else if (scn == 'C') k = "C" + std::to_string(depth);
    else if (scn == 'E') k = "E" + std::to_string(std::min(depth, 2));
    else k = "D" + std::to_string(dvar);
    k += std::string("/") + kindName(kind) + "/" + apiName(postApi) + "/" + (caller ? "rec" : "ext") + "/" + (pool == 0 ? "pool0" : "poolN") + "/" + (hold ? "hold" : "free");
    return k;
  }
};

// State shared between the external thread and a driver that runs inside a pool task is kept in
// relaxed atomics only (TSan: no harness race, no added happens-before edge).
struct Forb {
  std::atomic<int> id{0}, code{0}; // code: bit0 post, bits1-2 level (bit1 set-over, bit2 pool-over), bits3-4 kind
};
static Forb g_forb[kMaxTasks];

static std::string whyOf(int code) {
  bool post = code & 1;
  std::string w = post ? "post@" : "pre@";
  if (post) w += std::string(levelName((code >> 1) & 1, (code >> 2) & 1)) + "@";
  return w + kindName((code >> 3) & 3);
}

enum Flag04 : unsigned {
  kFBorn = 1u << 0,
  kFSibs = 1u << 1,
  kFExcQueued = 1u << 2,
  kFExcBulk = 1u << 3,
  kFExcDirect = 1u << 4,
  kFThrowerNotRun = 1u << 5,
  kFSkipVerdict = 1u << 6,
  kFCancelInBulk = 1u << 7,
  kFCancelAfterExc = 1u << 8,
};

// Everything a worker thread writes and the main thread reads lives in static storage (never freed or
// reused, so TSan sees no plain write after a worker's relaxed atomic write).
struct Shared04 {
  Gates gates;
  std::atomic<int> nextId{0};
  std::atomic<int> nForb{0};
  std::atomic<unsigned> flags{0};
  std::atomic<long> waitsChecked{0}, fillers{0}, followersSuppressed{0};
  // cancel-by-another-thread request: a real release/acquire pair in every build. The edge orders
  // only the requesting harness thread and the cancelling harness thread, exactly as any program
  // that hands a task set to another thread has to.
  std::atomic<SetH*> cancelTarget{nullptr};
  std::atomic<int> cancelDone{0};
  std::atomic<int> gatesOpened{0};
  std::atomic<int> done{0}, phase{0}, throwerId{-1};
  void reset() {
    gates.reset();
    nextId.store(0, std::memory_order_relaxed);
    nForb.store(0, std::memory_order_relaxed);
    flags.store(0, std::memory_order_relaxed);
    waitsChecked.store(0, std::memory_order_relaxed);
    fillers.store(0, std::memory_order_relaxed);
    followersSuppressed.store(0, std::memory_order_relaxed);
    cancelTarget.store(nullptr, std::memory_order_relaxed);
    cancelDone.store(0, std::memory_order_relaxed);
    gatesOpened.store(0, std::memory_order_relaxed);
    done.store(0, std::memory_order_relaxed);
    phase.store(0, std::memory_order_relaxed);
    throwerId.store(-1, std::memory_order_relaxed);
  }
};
static Shared04 g_sh;

struct Run04 {
  const Spec04& s;
  dispenso::ThreadPool& pool;
  dispenso::ConcurrentTaskSet& aux;
  Gates& gates = g_sh.gates;
  std::atomic<int>& nextId = g_sh.nextId;
  std::atomic<int>& nForb = g_sh.nForb;
  std::atomic<unsigned>& flags = g_sh.flags;
  std::atomic<long>&waitsChecked = g_sh.waitsChecked, &fillers = g_sh.fillers, &followersSuppressed = g_sh.followersSuppressed;
  std::atomic<SetH*>& cancelTarget = g_sh.cancelTarget;
  std::atomic<int>& cancelDone = g_sh.cancelDone;
  std::atomic<int>& gatesOpened = g_sh.gatesOpened;
  Run04(const Spec04& sp, dispenso::ThreadPool& p, dispenso::ConcurrentTaskSet& a) : s(sp), pool(p), aux(a) {}

  void flag(unsigned f) {
    flags.fetch_or(f, std::memory_order_relaxed);
  }
  int alloc(int n) {
    int f = nextId.fetch_add(n, std::memory_order_relaxed);
    if (f + n > kMaxTasks) {
      fprintf(stderr, "h_cancel: too many task ids\n");
      _exit(2);
    }
    return f;
  }
  void forbid(int first, int n, int code) {
    int at = nForb.fetch_add(n, std::memory_order_relaxed);
    for (int i = 0; i < n && at + i < kMaxTasks; ++i) {
      g_forb[at + i].id.store(first + i, std::memory_order_relaxed);
      g_forb[at + i].code.store(code, std::memory_order_relaxed);
    }
  }
  void serveCancelRequests() { // called by the thread that plays "another thread"
    SetH* t = cancelTarget.load(std::memory_order_acquire);
    if (t && !cancelDone.load(std::memory_order_relaxed)) {
      t->cancel();
      cancelDone.store(1, std::memory_order_release);
    }
  }
  void holdWorkers(int h) {
    for (int i = 0; i < h; ++i) {
      aux.schedule([this]() { gates.body(); }, dispenso::ForceQueuingTag());
    }
    gates.waitArrived(h);
    g_sentinel.gatesOpen.store(false);
  }
  void openGates() {
    if (!gatesOpened.exchange(1, std::memory_order_relaxed)) {
      gates.open();
      g_sentinel.gatesOpen.store(true);
    }
  }
  bool poolOverNow(bool rec) {
    ssize_t wr = pool.verifWorkRemaining();
    ssize_t N = pool.numThreads();
    return wr > N * s.mult || (rec && wr > N + N / 2);
  }
  void raisePool(bool rec) {
    ssize_t N = pool.numThreads();
    int guard = 0;
    while (!poolOverNow(rec) && guard++ < 2000) {
      if (N == 0) {
        aux.scheduleBulk(2, [](size_t) { return []() { vrt::progress(); }; }, dispenso::ForceQueuingTag());
        fillers.fetch_add(2, std::memory_order_relaxed);
      } else {
        aux.schedule([]() { vrt::progress(); }, dispenso::ForceQueuingTag());
        fillers.fetch_add(1, std::memory_order_relaxed);
      }
    }
  }
  // queue `n` bodies on `set` before the cancel; they can never legitimately start (every thread that
  // could run them is held or is the driver itself, which runs nothing before the cancel).
  void queuePre(SetH& set, int n) {
    if (n <= 0) return;
    int first = alloc(n);
    int api = (pool.numThreads() == 0) ? 3 : s.preApi;
    doSchedule(set, api, first, n);
    forbid(first, n, set.kind << 3);
  }
  void doCancel(SetH& root) {
    if (s.cancelBy == 1) {
      cancelTarget.store(&root, std::memory_order_release);
      while (!cancelDone.load(std::memory_order_acquire)) vrt::sleepUs(20);
    } else {
      root.cancel();
    }
  }
  void postOn(SetH& set, bool rec) {
    // single-task APIs are issued one call at a time so that the load level each call saw is known
    int calls = s.postApi < 2 ? s.postCount : 1;
    int per = s.postApi < 2 ? 1 : s.postCount;
    for (int c = 0; c < calls; ++c) {
      ssize_t out = set.outstanding();
      bool so = out > setThreshold(set.kind, pool.numThreads(), s.stealMult);
      bool po = poolOverNow(rec);
      int first = alloc(per);
      int thrown = doSchedule(set, s.postApi, first, per);
      if (thrown >= 0) vrt::violation("schedule call on a cancelled set threw", J().kv("id", thrown), "post-threw");
      forbid(first, per, 1 | (so ? 2 : 0) | (po ? 4 : 0) | (set.kind << 3));
    }
  }
  void expectWaitTrue(SetH& set, const char* what) {
    bool r = false;
    int thrown = -1;
    try {
      r = set.wait();
    } catch (const VEx& e) {
      thrown = e.id;
    }
    waitsChecked.fetch_add(1, std::memory_order_relaxed);
    vrt::progress();
    if (thrown >= 0) vrt::violation(std::string("wait() threw on a cancelled set without throwing tasks: ") + what, J().kv("id", thrown), "wait-result");
    else if (!r) vrt::violation(std::string("wait() did not report cancellation: ") + what, J().kv("set", kindName(set.kind)), "wait-result");
    if (set.outstanding() != 0) vrt::violation("outstanding != 0 after wait()", J().kv("outstanding", static_cast<long>(set.outstanding())), "wait-result");
  }
};

// ---- scenario A/B: cancel, then schedule from the same thread (plus bodies queued before the cancel)
static void driverA(Run04& r) {
  const Spec04& s = r.s;
  const bool rec = s.caller == 1;
  ssize_t N = r.pool.numThreads();
  if (s.hold && N > 0) r.holdWorkers(static_cast<int>(rec ? N - 1 : N));
  SetH set(s.kind, r.pool, dispenso::ParentCascadeCancel::kOff, s.stealMult);
  g_sentinel.watch(set.base(), &r.pool);
  if (s.hold) {
    int pre = s.preCount;
    if (s.level == 1 || s.level == 3) pre = std::max<int>(pre, static_cast<int>(setThreshold(s.kind, N, s.stealMult)) + 2);
    r.queuePre(set, pre);
    if (s.level >= 2) r.raisePool(rec);
  }
  r.doCancel(set);
  r.postOn(set, rec);
  if (s.waitMode == 0) {
    r.openGates();
    r.expectWaitTrue(set, "first wait");
  } else {
    r.expectWaitTrue(set, "first wait (gates closed)");
    r.openGates();
  }
  r.expectWaitTrue(set, "second wait");
  g_sentinel.unwatch();
}

// ---- scenario C: cancellation through ParentCascadeCancel::kOn parents
struct Cascade {
  Run04& r;
  SetH* root;
  std::vector<SetH*> chain;
  std::vector<SetH*> sibs;
  Cascade(Run04& rr, SetH* rt) : r(rr), root(rt) {}
  void level(int lvl) {
    const Spec04& s = r.s;
    // we are inside a task of chain.back() (or of the root): parentTaskSet() is that set
    SetH me(s.kinds[lvl], r.pool, dispenso::ParentCascadeCancel::kOn, s.stealMult);
    std::vector<std::unique_ptr<SetH>> mySibs;
    for (int i = 0; i < s.siblings; ++i) {
      mySibs.emplace_back(new SetH((s.kinds[lvl] + 1 + i) % 3, r.pool, dispenso::ParentCascadeCancel::kOn, s.stealMult));
      sibs.push_back(mySibs.back().get());
    }
    chain.push_back(&me);
    if (lvl < s.depth) {
      me.scheduleFQ([this, lvl]() { level(lvl + 1); });
      r.expectWaitTrue(me, "intermediate cascade level");
    } else {
      // deepest level: queue bodies everywhere, cancel the root, schedule more, wait
      ssize_t N = r.pool.numThreads();
      int pre = s.preCount;
      if (s.level == 1 || s.level == 3) pre = std::max<int>(pre, static_cast<int>(setThreshold(me.kind, N, s.stealMult)) + 2);
      for (SetH* c : chain) r.queuePre(*c, c == &me ? pre : std::min(pre, 3));
      for (SetH* c : sibs) r.queuePre(*c, std::min(std::max(pre, 1), 3));
      if (s.level >= 2) r.raisePool(N > 0);
      r.doCancel(*root);
      for (SetH* c : chain) {
        if (!c->canceled()) vrt::violation("child set not cancelled after the root's cancel() returned", J().kv("kind", kindName(c->kind)), "cascade-flag");
        r.postOn(*c, N > 0);
      }
      for (SetH* c : sibs) {
        if (!c->canceled()) vrt::violation("sibling child set not cancelled after the root's cancel() returned", J().kv("kind", kindName(c->kind)), "cascade-flag");
        r.postOn(*c, N > 0);
      }
      if (s.bornCanceled) {
        SetH late((me.kind + 1) % 3, r.pool, dispenso::ParentCascadeCancel::kOn, s.stealMult);
        if (!late.canceled()) vrt::violation("set created with kOn under a cancelled parent is not cancelled", J(), "born-cancelled");
        r.postOn(late, N > 0);
        r.expectWaitTrue(late, "set born cancelled");
        r.flag(kFBorn);
      }
      if (!sibs.empty()) r.flag(kFSibs);
      r.expectWaitTrue(me, "deepest cascade level");
    }
    for (auto& sp : mySibs) r.expectWaitTrue(*sp, "sibling set");
    for (auto& sp : mySibs) sibs.erase(std::find(sibs.begin(), sibs.end(), sp.get()));
    chain.pop_back();
  }
};

static void driverC(Run04& r) {
  const Spec04& s = r.s;
  ssize_t N = r.pool.numThreads();
  if (N > 1) r.holdWorkers(static_cast<int>(N - 1));
  SetH root(s.kinds[0], r.pool, dispenso::ParentCascadeCancel::kOff, s.stealMult);
  SetH* rootp = &root;
  Run04* rp = &r;
  root.scheduleFQ([rp, rootp]() {
    {
      Cascade c(*rp, rootp);
      c.level(1);
    }
    g_sh.done.store(1, HS_REL);
  });
  // the external thread must not execute anything until the cascade test is over
  while (!g_sh.done.load(HS_ACQ)) {
    r.serveCancelRequests();
    vrt::sleepUs(30);
  }
  r.openGates();
  r.expectWaitTrue(root, "root");
}

// ---- scenario D: cancellation by an exception thrown from a task
static void driverD(Run04& r) {
  const Spec04& s = r.s;
  ssize_t N = r.pool.numThreads();
  SetH set(s.kind, r.pool, dispenso::ParentCascadeCancel::kOff, s.stealMult);
  g_sentinel.watch(set.base(), &r.pool);
  int thrower = -1;
  int firstFollower = -1, nFollow = s.followers;
  if (s.dvar == 1) {
    // exactly one thread executes: one free worker (others held), or the caller itself on a 0-thread pool
    if (N > 1) r.holdWorkers(static_cast<int>(N - 1));
    thrower = r.alloc(1);
    g_throwOf[thrower].store(1000 + thrower, std::memory_order_relaxed);
    doSchedule(set, 1, thrower, 1);
    firstFollower = r.alloc(nFollow);
    doSchedule(set, N == 0 ? 3 : s.preApi, firstFollower, nFollow);
    bool noCancel = false;
    while (!set.canceled()) {
      if (set.outstanding() == 0 && g_throwStamp[thrower].load(std::memory_order_relaxed) != 0 && !set.canceled()) {
        noCancel = true; // every task (the thrower included) has completed and the set is still not cancelled
        break;
      }
      vrt::sleepUs(30);
    }
    r.flag(kFExcQueued);
    if (noCancel) {
      vrt::violation("a task threw, all tasks have completed, and the set is not cancelled: the exception did not cancel it", J().kv("followersRun", g_mon.started.load() - 1), "exception-no-cancel");
      r.flag(kFSkipVerdict);
      r.openGates();
      try {
        set.wait();
      } catch (const VEx&) {
      }
      g_sentinel.unwatch();
      return;
    }
  } else {
    // bulk: the throwing functor is run inline by scheduleBulk (set or pool over its load factor), all workers held
    if (N > 0) r.holdWorkers(static_cast<int>(N));
    int pre = static_cast<int>(setThreshold(s.kind, N, s.stealMult)) + 2;
    r.queuePre(set, pre);
    if (s.level >= 2) r.raisePool(false);
    int n = nFollow + 1;
    firstFollower = r.alloc(n);
    thrower = firstFollower + std::min(s.throwIdx, n - 1);
    if (s.dvar == 3) {
      // a body of the batch cancels the set itself while scheduleBulk is running bodies inline
      g_cancelSet.store(&set, std::memory_order_relaxed);
      g_cancelerId.store(thrower, std::memory_order_relaxed);
    } else {
      g_throwOf[thrower].store(1000 + thrower, std::memory_order_relaxed);
    }
    int direct = doSchedule(set, 2, firstFollower, n);
    g_cancelerId.store(-1, std::memory_order_relaxed);
    nFollow = n;
    if (direct >= 0) {
      // documented alternative: propagated to the caller, the set is then not cancelled by it
      r.flag(kFExcDirect);
    } else if (g_mon.ran[thrower].load() == 0) {
      r.flag(kFThrowerNotRun);
    } else if (g_mon.inlineOfCall[thrower].load() >= 0) {
      r.flag(s.dvar == 3 ? kFCancelInBulk : (kFExcBulk | kFCancelInBulk));
    } else {
      r.flag(kFThrowerNotRun);
    }
    if (s.dvar != 3 && !set.canceled() && direct < 0 && g_mon.ran[thrower].load() != 0) {
      vrt::violation("a functor run inline by scheduleBulk threw, the exception was captured, and the set is not cancelled", J(), "exception-no-cancel");
    }
    if (!set.canceled()) {
      // nothing was captured (direct propagation or thrower still queued): nothing to check here
      r.flag(kFSkipVerdict);
      r.openGates();
      try {
        set.wait();
      } catch (const VEx&) {
      }
      g_sentinel.unwatch();
      return;
    }
  }
  uint64_t ts = g_throwStamp[thrower].load(std::memory_order_relaxed);
  // anything scheduled now is after the cancel was observed by this thread
  r.postOn(set, false);
  r.openGates();
  int got = -1;
  bool ret = false;
  try {
    ret = set.wait();
  } catch (const VEx& e) {
    got = e.id;
  }
  r.waitsChecked.fetch_add(1, std::memory_order_relaxed);
  if (s.dvar == 3) {
    if (got >= 0 || !ret) vrt::violation("wait() after a body cancelled its own set did not simply report cancellation", J().kv("got", got).kv("returned", ret), "wait-result");
  } else if (got != 1000 + thrower) vrt::violation("first wait() after an exception-cancel did not rethrow the captured exception", J().kv("got", got).kv("expected", 1000 + thrower).kv("returned", ret), "wait-result");
  r.expectWaitTrue(set, "wait after the rethrow");
  // followers: none may start after the throw (single executing thread, see DESIGN C04 D)
  for (int i = 0; i < nFollow; ++i) {
    int id = firstFollower + i;
    if (id == thrower) continue;
    if (g_mon.ran[id].load() && g_mon.startStamp[id].load() > ts) {
      vrt::violation(s.dvar == 3 ? "body of the batch started after an earlier body of the batch had cancelled the set" : "body started after the exception had cancelled the set", J().kv("id", id).kv("startStamp", g_mon.startStamp[id].load()).kv("throwStamp", ts), std::string("follower@") + kindName(set.kind));
    } else if (!g_mon.ran[id].load()) {
      r.followersSuppressed.fetch_add(1, std::memory_order_relaxed);
    }
  }
  g_sentinel.unwatch();
}


// ---- scenario E: child (kOn) alive, a sibling task of the parent throws (parent cancelled through the
// exception path, which does not walk the children), then the owner calls parent.cancel() explicitly:
// that cancel must reach the child. Judged on the child with the sound scenarios A (schedule after the
// cancel from the one thread that schedules) and B (bodies force-queued while every other worker is gated).
namespace {
struct RunE {
  Run04& r;
  SetH* parent;
  int depth;
  std::vector<SetH*> chain;
  void phaseWait(int want) {
    while (g_sh.phase.load(HS_ACQ) < want) vrt::sleepUs(20);
  }
  void level(int lvl) {
    const Spec04& s = r.s;
    SetH me(s.kinds[lvl], r.pool, dispenso::ParentCascadeCancel::kOn, s.stealMult);
    chain.push_back(&me);
    ssize_t N = r.pool.numThreads();
    if (lvl < depth) {
      me.scheduleFQ([this, lvl]() { level(lvl + 1); });
      r.expectWaitTrue(me, "intermediate level (cancel after exception)");
    } else {
      if (N == 0) {
        // everything runs on this (the owner's) thread: the sibling is run inline by the force-queued path
        for (SetH* c : chain) r.queuePre(*c, 2 + s.preCount);
        int thr = r.alloc(1);
        g_throwOf[thr].store(1000 + thr, std::memory_order_relaxed);
        doSchedule(*parent, 1, thr, 1);
        g_sh.throwerId.store(thr, std::memory_order_relaxed);
        if (!parent->canceled()) vrt::violation("a task of the parent threw and the parent is not cancelled", J(), "exception-no-cancel");
        parent->cancel(); // explicit cancel by the owner, after the exception-cancel
      } else {
        g_sh.phase.store(1, HS_REL); // child alive
        phaseWait(2);                // sibling has thrown, parent seen cancelled, every other worker is gated again
        for (SetH* c : chain) r.queuePre(*c, 2 + s.preCount);
        g_sh.phase.store(3, HS_REL);
        phaseWait(4);                // the owner's explicit parent.cancel() has returned
      }
      for (SetH* c : chain) {
        if (!c->canceled()) vrt::violation("child set not cancelled by an explicit parent.cancel() that followed an exception-cancel of the parent", J().kv("kind", kindName(c->kind)), "cascade-flag-after-exception");
        r.postOn(*c, N > 0);
      }
      r.flag(kFCancelAfterExc);
      r.openGates();
      r.expectWaitTrue(me, "child after exception + explicit cancel");
    }
    chain.pop_back();
  }
};
} // namespace

static void driverE(Run04& r) {
  const Spec04& s = r.s;
  ssize_t N = r.pool.numThreads();
  SetH root(s.kinds[0], r.pool, dispenso::ParentCascadeCancel::kOff, s.stealMult);
  SetH* rootp = &root;
  Run04* rp = &r;
  int depth = std::min(s.depth, 2);
  int thr = -1;
  if (N > 0) {
    // N >= 2: one worker runs the (held) sibling thrower, one runs the task that owns the children
    r.holdWorkers(static_cast<int>(N - 2));
    thr = r.alloc(1);
    g_throwOf[thr].store(1000 + thr, std::memory_order_relaxed);
    g_lateId.store(thr, std::memory_order_relaxed);
    doSchedule(root, 1, thr, 1);
    while (!g_lateStarted.load(HS_ACQ)) vrt::sleepUs(20);
  }
  root.scheduleFQ([rp, rootp, depth]() {
    {
      RunE e{*rp, rootp, depth, {}};
      e.level(1);
    }
    g_sh.done.store(1, HS_REL);
  });
  if (N > 0) {
    while (g_sh.phase.load(HS_ACQ) < 1) vrt::sleepUs(20);
    g_lateGo.store(1, HS_REL); // the sibling throws now: exception-cancel of the parent
    while (!root.canceled()) vrt::sleepUs(20);
    // its worker is free again: gate it, so that nothing but the child-owning task can execute anything
    r.aux.schedule([rp]() { rp->gates.body(); }, dispenso::ForceQueuingTag());
    r.gates.waitArrived(static_cast<int>(N - 1));
    g_sh.phase.store(2, HS_REL);
    while (g_sh.phase.load(HS_ACQ) < 3) vrt::sleepUs(20);
    root.cancel(); // explicit cancel by the owner
    g_sh.phase.store(4, HS_REL);
    while (!g_sh.done.load(HS_ACQ)) vrt::sleepUs(30);
  } else {
    thr = g_sh.throwerId.load(std::memory_order_relaxed);
  }
  r.openGates();
  // the parent's first wait rethrows the sibling's exception, the next one reports cancellation
  int got = -1;
  try {
    root.wait();
  } catch (const VEx& e) {
    got = e.id;
  }
  if (got != 1000 + thr) vrt::violation("parent wait() did not rethrow the sibling's exception", J().kv("got", got).kv("expected", 1000 + thr), "wait-result");
  r.expectWaitTrue(root, "parent after the rethrow");
}

static void genSpec04(vrt::Rng& r, long idx, Spec04& s) {
  const bool th = vrt::thorough();
  int maxPool = th ? 9 : 4;
  s.pool = static_cast<int>(r.range(0, maxPool));
  const int mults[] = {1, 1, 2, 32};
  s.mult = mults[r.below(4)];
  s.stealMult = r.chance(0.5) ? 1 : 4;
  s.kind = static_cast<int>(r.below(3));
  s.postApi = static_cast<int>(idx % 4);
  s.level = static_cast<int>((idx / 4) % 4);
  int scnSel = static_cast<int>((idx / 16) % 8);
  s.scn = scnSel < 4 ? 'A' : scnSel < 6 ? 'C' : scnSel < 7 ? 'D' : 'E';
  s.hold = true;
  s.preApi = r.chance(0.5) ? 1 : 3;
  s.preCount = static_cast<int>(r.range(0, 6));
  long N = s.pool;
  const long counts[] = {1, 1, 2, 3, std::max<long>(1, N / 4), std::max<long>(1, N), N + 1, 3 * N + 1, 40};
  s.postCount = static_cast<int>(counts[r.below(9)]);
  if (s.postApi < 2 && s.postCount > 8) s.postCount = 8;
  s.cancelBy = (s.kind != 0 && r.chance(0.3)) ? 1 : 0;
  s.waitMode = static_cast<int>(r.below(2));
  s.perturb = r.chance(0.3) ? 0.05 : 0.0;
  if (s.level == 1) s.mult = 32; // set-over without pool-over needs a loose pool load factor
  if (s.scn == 'A') {
    s.caller = (s.pool > 0 && s.level != 1 && r.chance(0.4)) ? 1 : 0;
    if (r.chance(0.2)) {
      s.hold = false;
      s.level = 0;
      s.preCount = 0;
    }
    if (s.pool == 0) s.caller = 0;
  } else if (s.scn == 'C') {
    s.depth = static_cast<int>(r.range(1, th ? 3 : 2));
    if (r.chance(0.15)) s.depth = 3;
    s.siblings = static_cast<int>(r.below(3));
    for (int i = 0; i < 4; ++i) s.kinds[i] = static_cast<int>(r.below(3));
    s.kind = s.kinds[s.depth];
    s.bornCanceled = r.chance(0.4);
    s.caller = s.pool > 0 ? 1 : 0;
    // the root is cancelled from the external thread only if that is inside its contract
    s.cancelBy = (s.pool > 0 && r.chance(0.4)) ? 1 : 0;
  } else if (s.scn == 'E') {
    const int ep[] = {0, 2, 3, 4, 2, 0};
    s.pool = ep[r.below(6)];
    if (th && r.chance(0.3)) s.pool = static_cast<int>(r.range(5, 9));
    s.depth = static_cast<int>(r.range(1, 2));
    for (int i = 0; i < 4; ++i) s.kinds[i] = static_cast<int>(r.below(3));
    s.kind = s.kinds[s.depth];
    s.caller = s.pool > 0 ? 1 : 0;
    s.cancelBy = 0;
    s.level = 0;
  } else {
    s.dvar = static_cast<int>(r.pick(std::vector<int>{1, 1, 2, 2, 3, 3}));
    s.followers = static_cast<int>(r.range(1, 12));
    s.throwIdx = static_cast<int>(r.range(0, s.followers));
    s.caller = 0;
    s.cancelBy = 0;
    if (s.dvar >= 2 && s.level == 0) s.level = 1;
  }
}

static void runC04() {
  const long n = vrt::g_args.getInt("n", vrt::thorough() ? 24000 : 1600);
  g_sentinel.start();
  for (long idx = 0; idx < n; ++idx) {
    if (!vrt::selected(idx)) continue;
    vrt::Rng rng = vrt::caseRng(idx);
    Spec04 s;
    genSpec04(rng, idx, s);
    vrt::caseBegin(idx, s.key(), s.json());
    resetBodies(kMaxTasks);
    g_sh.reset();
    vrt::watchdogArm();
    if (s.perturb > 0) {
      vrt::hookProb(V::kPoolForceEnqueueAfterSizeTest, s.perturb);
      vrt::hookProb(V::kPoolSchedAfterEnqueue, s.perturb);
      vrt::hookProb(V::kPoolPlacedAfterClaim, s.perturb);
      vrt::hookProb(V::kTaskSetWrapperAfterBody, s.perturb);
      vrt::hookProb(V::kTaskSetBulkAfterRingTest, s.perturb);
      vrt::hookProb(V::kPoolBulkRingsBetweenPush, s.perturb);
    }
    long nForbidden = 0, ranForbidden = 0;
    std::vector<std::string> classes;
    auto cls = [&classes](const std::string& c) {
      if (std::find(classes.begin(), classes.end(), c) == classes.end()) classes.push_back(c);
    };
    long waits = 0, fillers = 0;
    {
      dispenso::ThreadPool pool(static_cast<size_t>(s.pool), static_cast<size_t>(s.mult));
      vrt::progress();
      dispenso::ConcurrentTaskSet aux(pool, dispenso::TaskCost::kLightweight); // central queue: every worker looks there (placed work can sit in another group's steal ring)
      Run04 run(s, pool, aux);
      std::thread helper;
      std::atomic<int> helperStop{0};
      if (s.cancelBy == 1 && s.scn == 'A') {
        helper = std::thread([&run, &helperStop]() {
          while (!helperStop.load(std::memory_order_relaxed)) {
            run.serveCancelRequests();
            vrt::sleepUs(20);
          }
        });
      }
      Run04* rp = &run;
      if (s.scn == 'A' && s.caller == 1) {
        pool.schedule(
            [rp]() {
              driverA(*rp);
              g_sh.done.store(1, HS_REL);
            },
            dispenso::ForceQueuingTag());
        while (!g_sh.done.load(HS_ACQ)) vrt::sleepUs(30);
      } else if (s.scn == 'A') {
        driverA(run);
      } else if (s.scn == 'C') {
        driverC(run);
      } else if (s.scn == 'E') {
        driverE(run);
      } else {
        driverD(run);
      }
      run.openGates();
      aux.wait();
      if (helper.joinable()) {
        helperStop.store(1, std::memory_order_relaxed);
        helper.join();
      }
      // verdict: no forbidden body ran
      unsigned fl = run.flags.load();
      nForbidden = (fl & kFSkipVerdict) ? 0 : std::min<long>(run.nForb.load(), kMaxTasks);
      std::vector<std::string> reported;
      for (long i = 0; i < nForbidden; ++i) {
        int id = g_forb[i].id.load();
        int code = g_forb[i].code.load();
        std::string why = whyOf(code);
        if (code & 1) {
          const char* lvl = levelName((code >> 1) & 1, (code >> 2) & 1);
          cls(std::string("post:") + kindName((code >> 3) & 3) + "/" + apiName(s.postApi) + "/" + lvl);
          cls(std::string("lvl:") + lvl);
          if ((s.postApi == 0 || s.postApi == 2) && (code & 6)) cls("inline-fallback-level-reached");
        }
        int c = g_mon.ran[id].load();
        if (c) {
          ++ranForbidden;
          if (std::find(reported.begin(), reported.end(), why) != reported.end()) continue;
          reported.push_back(why);
          vrt::violation((code & 1) ? "a body scheduled after cancel() had returned was executed" : "a body that was still queued when cancel() returned was executed",
                         J().kv("id", id).kv("count", c).kv("thread", g_mon.runThread[id].load()).kv("inlineInScheduleCall", g_mon.inlineOfCall[id].load() >= 0).kv("class", why), why);
        }
      }
      if (fl & kFBorn) cls("born-cancelled");
      if (fl & kFSibs) cls("cascade-siblings");
      if (fl & kFExcQueued) cls("exception-cancel:queued");
      if (fl & kFExcBulk) cls("exception-cancel:bulk-inline");
      if (fl & kFExcDirect) cls("exception-direct");
      if (fl & kFThrowerNotRun) cls("thrower-not-run");
      if (fl & kFCancelInBulk) cls("cancel-during-inline-bulk");
      if ((fl & kFCancelInBulk) && s.dvar == 3) cls("cancel-during-inline-bulk:body-cancels");
      if (fl & kFCancelAfterExc) cls("cancel-after-exception-cascade");
      waits = run.waitsChecked.load();
      fillers = run.fillers.load();
    }
    vrt::watchdogDisarm();
    vrt::hooksReset();
    classes.push_back(std::string("scn:") + s.scn);
    classes.push_back(std::string("kind:") + kindName(s.kind));
    if (s.scn == 'C') classes.push_back("cascade-depth:" + std::to_string(s.depth));
    if (s.pool == 0) classes.push_back("pool0");
    if (s.caller == 1) classes.push_back("pool-recursive-caller");
    if (s.cancelBy == 1) classes.push_back("cancel-from-other-thread");
    if (!s.hold) classes.push_back("free-workers");
    bool nt = nForbidden > 0 && ranForbidden == 0;
    vrt::caseEnd(J().kv("forbidden", nForbidden).kv("ranForbidden", ranForbidden).kv("waitsChecked", waits).kv("fillers", fillers).kv("bodiesRun", g_mon.started.load()),
                 nt ? s.json().str() : "", classes);
  }
}

// ================================================================== C05
struct Op05 {
  int api, first, count, producer;
};
struct Spec05 {
  int pool = 2, mult = 32, stealMult = 4, kind = 0;
  int caller = 0; // 0 external, 1 inside a raw pool task
  int rounds = 1;
  int producers = 1;
  bool hold = false;  // workers held while scheduling (forces queue build-up / inline fall-backs)
  int waitMode = 0;   // with hold: 0 open then wait, 1 wait (single thread runs everything) then open
  int dwellUs = 0;
  bool rendezvous = false;
  int tryWaits = 0;   // number of tryWait calls before the wait()
  int tryWaitN = 1;
  int extraWaits = 1; // waits after the completing one
  std::vector<std::vector<Op05>> ops; // per round
  std::vector<int> throwers;
  int ntasks = 0;
  double perturb = 0;
  J json() const {
    J j;
    j.kv("pool", pool).kv("mult", mult).kv("stealMult", stealMult).kv("kind", kindName(kind)).kv("caller", caller ? "pool-task" : "external");
    j.kv("rounds", rounds).kv("producers", producers).kv("hold", hold).kv("waitMode", waitMode).kv("dwellUs", dwellUs).kv("rendezvous", rendezvous);
    j.kv("tryWaits", tryWaits).kv("tryWaitN", tryWaitN).kv("extraWaits", extraWaits).kv("ntasks", ntasks).arr("throwers", throwers).kv("perturb", perturb);
    std::string o;
    for (auto& rd : ops) {
      o += "[";
      for (auto& op : rd) o += std::string(apiName(op.api)) + ":" + std::to_string(op.first) + "+" + std::to_string(op.count) + "@" + std::to_string(op.producer) + " ";
      o += "]";
    }
    j.kv("ops", o);
    return j;
  }
  std::string key() const {
    return std::string(kindName(kind)) + "/" + (pool == 0 ? "pool0" : pool == 1 ? "pool1" : "poolN") + "/" + (caller ? "rec" : "ext") + "/" + (producers > 1 ? "multi-producer" : "one-producer") + "/" +
        (hold ? (waitMode ? "hold-wait-open" : "hold-open-wait") : "free") + "/" + (throwers.empty() ? "nothrow" : throwers.size() == 1 ? "one-thrower" : "many-throwers");
  }
};

static void genSpec05(vrt::Rng& r, long idx, Spec05& s) {
  const bool th = vrt::thorough();
  s.pool = static_cast<int>(r.range(0, 8));
  if (idx % 5 == 0) s.pool = static_cast<int>(idx / 5 % 2); // plenty of 0/1-thread pools (determined "first")
  s.mult = r.chance(0.5) ? 1 : 32;
  s.stealMult = r.chance(0.5) ? 1 : 4;
  s.kind = static_cast<int>(r.below(3));
  s.caller = (s.pool > 0 && r.chance(0.25)) ? 1 : 0;
  s.rounds = static_cast<int>(r.range(1, 3));
  s.producers = (s.kind != 0 && s.caller == 0 && r.chance(0.3)) ? static_cast<int>(r.range(2, 3)) : 1;
  s.hold = s.pool > 0 && r.chance(0.4);
  s.waitMode = static_cast<int>(r.below(2));
  s.dwellUs = r.chance(0.3) ? static_cast<int>(r.range(1, 40)) : 0;
  s.rendezvous = r.chance(0.4);
  s.tryWaits = r.chance(0.5) ? static_cast<int>(r.range(1, 6)) : 0;
  s.tryWaitN = static_cast<int>(r.pick(std::vector<int>{0, 1, 2, 5, 1000}));
  s.extraWaits = static_cast<int>(r.range(1, 3));
  s.perturb = r.chance(0.3) ? 0.05 : 0.0;
  int maxTasks = th ? 200 : 120;
  int id = 0;
  for (int rd = 0; rd < s.rounds; ++rd) {
    std::vector<Op05> v;
    int budget = static_cast<int>(r.range(1, maxTasks / s.rounds));
    while (budget > 0) {
      Op05 op;
      op.api = static_cast<int>(r.below(4));
      op.count = op.api < 2 ? static_cast<int>(r.range(1, 4)) : static_cast<int>(r.range(1, 40));
      if (op.count > budget) op.count = budget;
      op.first = id;
      op.producer = static_cast<int>(r.below(static_cast<uint64_t>(s.producers)));
      id += op.count;
      budget -= op.count;
      v.push_back(op);
    }
    s.ops.push_back(v);
  }
  s.ntasks = id;
  int k = static_cast<int>(r.range(0, 8));
  if (r.chance(0.15)) k = 0;
  if (k > id) k = id;
  // bias throwers towards the first round (later rounds are suppressed after a capture)
  std::vector<int> all;
  int firstRound = s.ops[0].back().first + s.ops[0].back().count;
  for (int i = 0; i < k; ++i) {
    int t = r.chance(0.7) ? static_cast<int>(r.below(static_cast<uint64_t>(firstRound))) : static_cast<int>(r.below(static_cast<uint64_t>(id)));
    if (std::find(all.begin(), all.end(), t) == all.end()) all.push_back(t);
  }
  std::sort(all.begin(), all.end());
  s.throwers = all;
}

struct Delivery {
  int id;
  std::string where;
};

// Scripted: thrower B has started and is held inside its body; thrower A throws and the set is seen
// cancelled by the main thread; only then B throws. A is the first captured exception by
// construction, so the completed wait must rethrow A and nothing may ever deliver B.
static void runLateThrower(long idx, vrt::Rng& r) {
  int pool = static_cast<int>(r.range(2, 8));
  int kind = static_cast<int>(r.below(3));
  int extra = static_cast<int>(r.range(0, 20));
  int waitsAfter = static_cast<int>(r.range(1, 3));
  bool useTry = r.chance(0.5);
  J spec = J().kv("scripted", "late-thrower").kv("pool", pool).kv("kind", kindName(kind)).kv("extra", extra).kv("tryWait", useTry);
  vrt::caseBegin(idx, std::string("late-thrower/") + kindName(kind), spec);
  resetBodies(extra + 8);
  const int B = 0, A = 1;
  g_throwOf[B].store(B, std::memory_order_relaxed);
  g_throwOf[A].store(A, std::memory_order_relaxed);
  g_lateId.store(B, std::memory_order_relaxed);
  vrt::watchdogArm();
  std::vector<int> delivered;
  {
    dispenso::ThreadPool p(static_cast<size_t>(pool));
    SetH set(kind, p, dispenso::ParentCascadeCancel::kOff, 4);
    g_sentinel.watch(set.base(), &p);
    doSchedule(set, 1, B, 1);
    while (!g_lateStarted.load(HS_ACQ)) vrt::sleepUs(20);
    doSchedule(set, 1, A, 1);
    if (extra) doSchedule(set, 3, 2, extra);
    while (!set.canceled()) vrt::sleepUs(20);
    uint64_t seenCancelled = vrt::stamp();
    g_lateGo.store(1, HS_REL);
    for (int w = 0; w < 1 + waitsAfter; ++w) {
      try {
        if (useTry && w == 0) {
          while (set.outstanding() != 0) vrt::sleepUs(20);
          set.tryWait(4);
        } else {
          set.wait();
        }
      } catch (const VEx& e) {
        delivered.push_back(e.id);
        if (g_mon.inflight.load() != 0 || set.outstanding() != 0) vrt::violation("exception delivered while tasks of the set were still unfinished", J().kv("id", e.id), "early-delivery");
      }
    }
    if (g_throwStamp[B].load() < seenCancelled) vrt::violation("harness: late thrower threw before the cancel was observed", J(), "harness");
    g_sentinel.unwatch();
  }
  vrt::watchdogDisarm();
  if (delivered.size() != 1 || delivered[0] != A) {
    std::vector<long> d(delivered.begin(), delivered.end());
    vrt::violation("the waits did not deliver exactly the first captured exception", J().arr("delivered", d).kv("expected", A), "not-first");
  }
  vrt::caseEnd(J().kv("thrown", 2).kv("deliveredByWait", static_cast<long>(delivered.size())), spec.str(), {"late-thrower-first", std::string("kind:") + kindName(kind), "delivered-by-wait"});
}

// Scripted family "throw-after-cancel": the thrower is already running (held inside its body), the set
// is then cancelled by something other than an exception (owner, another thread, or a kOn parent's
// cascade), and only then the body throws X. The exception must still be captured: the next completed
// wait()/tryWait() rethrows X exactly once, later waits deliver nothing and wait() reports cancellation.
namespace {
struct TacShared { // static storage, relaxed atomics (written by a pool task in the cascade variant)
  std::atomic<int> delivered[8];
  std::atomic<int> nDelivered{0}, earlyDelivery{0}, lateThrow{0}, waitFalse{0}, tryTrueAfter{0}, done{0}, childBornCancelled{0};
  void reset() {
    for (auto& d : delivered) d.store(-1, std::memory_order_relaxed);
    nDelivered.store(0, std::memory_order_relaxed);
    earlyDelivery.store(0, std::memory_order_relaxed);
    lateThrow.store(0, std::memory_order_relaxed);
    waitFalse.store(0, std::memory_order_relaxed);
    tryTrueAfter.store(0, std::memory_order_relaxed);
    done.store(0, std::memory_order_relaxed);
    childBornCancelled.store(0, std::memory_order_relaxed);
  }
  void deliver(int id) {
    int at = nDelivered.fetch_add(1, std::memory_order_relaxed);
    if (at < 8) delivered[at].store(id, std::memory_order_relaxed);
  }
};
TacShared g_tac;

// the waits that follow the release of the thrower; run by the thread that owns / waits for `set`
void tacWaits(SetH& set, bool useTry, int extraWaits) {
  bool first = true;
  for (int w = 0; w < 1 + extraWaits; ++w) {
    bool isTry = useTry && (w == 0 || (w & 1) == 0);
    try {
      if (isTry) {
        // tryWait observes completion only when nothing is outstanding; until then keep calling it (it may
        // run queued tasks, including the thrower, on this thread)
        for (;;) {
          bool wasComplete = set.outstanding() == 0;
          bool r = set.tryWait(1);
          if (r) {
            g_tac.tryTrueAfter.fetch_add(1, std::memory_order_relaxed); // a cancelled set never reports true
            break;
          }
          if (wasComplete || !first) break;
          vrt::sleepUs(20);
        }
      } else {
        bool r = set.wait();
        if (!r) g_tac.waitFalse.fetch_add(1, std::memory_order_relaxed);
      }
    } catch (const VEx& e) {
      if (!first) g_tac.lateThrow.fetch_add(1, std::memory_order_relaxed);
      g_tac.deliver(e.id);
      if (g_mon.inflight.load() != 0 || set.outstanding() != 0) g_tac.earlyDelivery.fetch_add(1, std::memory_order_relaxed);
    }
    first = false;
    vrt::progress();
  }
}
} // namespace

static void runThrowAfterCancel(long idx, vrt::Rng& r) {
  const int variant = static_cast<int>((idx / 8) % 3); // 0 owner cancels, 1 another thread cancels, 2 cascade from a kOn parent
  int pool = static_cast<int>(r.range(1, 4));
  int kind = static_cast<int>(r.below(3));
  if (variant == 1 && kind == 0) kind = static_cast<int>(r.range(1, 2)); // a TaskSet is only used by its owner thread
  int api = static_cast<int>(r.pick(std::vector<int>{0, 1, 1, 2, 3, 3}));
  int count = api < 2 ? 1 : static_cast<int>(r.range(1, 12));
  int throwAt = static_cast<int>(r.below(static_cast<uint64_t>(count)));
  int extra = static_cast<int>(r.range(0, 10));
  bool useTry = r.chance(0.5);
  int extraWaits = static_cast<int>(r.range(1, 3));
  int parentKind = static_cast<int>(r.below(3));
  if (variant == 2) {
    kind = static_cast<int>(r.range(1, 2)); // child: bulk ConcurrentTaskSet (heavy / light)
    api = r.chance(0.7) ? 3 : 2;
    count = static_cast<int>(r.range(1, 12));
    throwAt = static_cast<int>(r.below(static_cast<uint64_t>(count)));
  }
  const char* vn[] = {"owner", "other-thread", "cascade"};
  J spec = J().kv("scripted", "throw-after-cancel").kv("cancel", vn[variant]).kv("pool", pool).kv("kind", kindName(kind)).kv("api", apiName(api)).kv("count", count).kv("throwAt", throwAt)
               .kv("extra", extra).kv("tryWait", useTry).kv("extraWaits", extraWaits).kv("parentKind", kindName(parentKind));
  vrt::caseBegin(idx, std::string("throw-after-cancel/") + vn[variant] + "/" + kindName(kind) + "/" + apiName(api), spec);
  resetBodies(count + extra + 8);
  g_tac.reset();
  const int X = throwAt; // ids [0, count) are the scheduling call that contains the thrower, extras follow
  g_throwOf[X].store(X, std::memory_order_relaxed);
  g_lateId.store(X, std::memory_order_relaxed);
  vrt::watchdogArm();
  bool parentWaitOk = true;
  int parentThrew = -1;
  {
    dispenso::ThreadPool p(static_cast<size_t>(pool));
    vrt::progress();
    if (variant < 2) {
      SetH set(kind, p, dispenso::ParentCascadeCancel::kOff, 4);
      g_sentinel.watch(set.base(), &p);
      int direct = doSchedule(set, api, 0, count);
      if (direct >= 0) g_tac.deliver(direct); // only possible if the body ran inline (then it was not held)
      if (extra) doSchedule(set, 3, count, extra);
      while (!g_lateStarted.load(HS_ACQ) && set.outstanding() != 0) vrt::sleepUs(20);
      if (variant == 0) {
        set.cancel();
      } else {
        SetH* sp = &set;
        std::thread t([sp]() { sp->cancel(); });
        t.join();
      }
      g_lateGo.store(1, HS_REL);
      tacWaits(set, useTry, extraWaits);
      g_sentinel.unwatch();
    } else {
      // parent owned by this thread; its task T creates the kOn child, bulk-schedules into it and waits for it
      SetH parent(parentKind, p, dispenso::ParentCascadeCancel::kOff, 4);
      dispenso::ThreadPool* pp = &p;
      parent.scheduleFQ([pp, kind, api, count, useTry, extraWaits]() {
        SetH child(kind, *pp, dispenso::ParentCascadeCancel::kOn, 4);
        if (child.canceled()) g_tac.childBornCancelled.store(1, std::memory_order_relaxed);
        int direct = doSchedule(child, api, 0, count);
        if (direct >= 0) g_tac.deliver(direct);
        // this wait may run the thrower itself (it is then held inside the wait) or help while a worker holds it
        tacWaits(child, useTry, extraWaits);
        g_tac.done.store(1, HS_REL);
      });
      // cancel the parent (cascading into the child) once the child's thrower is running
      while (!g_lateStarted.load(HS_ACQ) && !g_tac.done.load(HS_ACQ)) vrt::sleepUs(20);
      parent.cancel();
      g_lateGo.store(1, HS_REL);
      while (!g_tac.done.load(HS_ACQ)) vrt::sleepUs(30);
      try {
        parentWaitOk = parent.wait();
      } catch (const VEx& e) {
        parentThrew = e.id;
      }
    }
  }
  vrt::watchdogDisarm();
  const int started = g_lateStarted.load(std::memory_order_relaxed);
  const bool held = started == 1; // the thrower was running and held when the cancel happened
  std::vector<long> d;
  int nd = std::min(8, g_tac.nDelivered.load());
  for (int i = 0; i < nd; ++i) d.push_back(g_tac.delivered[i].load());
  if (held) {
    if (d.size() != 1 || d[0] != X) {
      vrt::violation("a task that was already running when the set was cancelled threw afterwards: the waits did not deliver exactly that exception once",
                     J().arr("delivered", d).kv("expected", X).kv("cancel", vn[variant]), d.empty() ? "lost" : (d.size() > 1 ? "twice" : "wrong-exception"));
    }
    if (g_tac.lateThrow.load()) vrt::violation("a wait after the completing one threw", J().arr("delivered", d), "spurious");
    if (g_tac.earlyDelivery.load()) vrt::violation("exception delivered while tasks of the set were still unfinished", J(), "early-delivery");
    if (g_tac.waitFalse.load()) vrt::violation("wait() on the cancelled set did not report cancellation", J(), "wait-result", "C04");
    if (g_tac.tryTrueAfter.load()) vrt::violation("tryWait() returned true on a cancelled set", J(), "trywait-result", "C04");
    if (variant == 2) {
      if (parentThrew >= 0) vrt::violation("the child's exception was also delivered by the parent's wait()", J().kv("id", parentThrew), "twice");
      else if (!parentWaitOk) vrt::violation("parent wait() did not report cancellation", J(), "wait-result", "C04");
    }
  }
  std::vector<std::string> cls{std::string("kind:") + kindName(kind)};
  if (held) {
    cls.push_back(variant == 2 ? "throw-after-cascade-cancel" : "throw-after-user-cancel");
    if (variant == 1) cls.push_back("throw-after-other-thread-cancel");
    if (api >= 2) cls.push_back("throw-after-cancel:bulk");
    else cls.push_back("throw-after-cancel:single");
    if (useTry) cls.push_back("throw-after-cancel:tryWait");
    if (!d.empty()) cls.push_back("delivered-by-wait");
  } else {
    cls.push_back("throw-after-cancel:not-held");
  }
  vrt::caseEnd(J().kv("thrown", g_mon.ran[X].load()).kv("held", held).kv("deliveredByWait", static_cast<long>(d.size())).kv("childBornCancelled", g_tac.childBornCancelled.load()), held ? spec.str() : "", cls);
}

static void runC05() {
  const long n = vrt::g_args.getInt("n", vrt::thorough() ? 20000 : 1600);
  g_sentinel.start();
  for (long idx = 0; idx < n; ++idx) {
    if (!vrt::selected(idx)) continue;
    vrt::Rng rng = vrt::caseRng(idx);
    if (idx % 8 == 3) {
      runLateThrower(idx, rng);
      continue;
    }
    if (idx % 8 == 5) {
      runThrowAfterCancel(idx, rng);
      continue;
    }
    Spec05 s;
    genSpec05(rng, idx, s);
    vrt::caseBegin(idx, s.key(), s.json());
    resetBodies(s.ntasks + 8);
    for (int t : s.throwers) g_throwOf[t].store(t, std::memory_order_relaxed);
    g_dwellUs.store(s.dwellUs, std::memory_order_relaxed);
    vrt::watchdogArm();
    if (s.perturb > 0) {
      vrt::hookProb(V::kPoolForceEnqueueAfterSizeTest, s.perturb);
      vrt::hookProb(V::kPoolSchedAfterEnqueue, s.perturb);
      vrt::hookProb(V::kTaskSetWrapperAfterBody, s.perturb * 3);
      vrt::hookProb(V::kPoolPlacedAfterClaim, s.perturb);
    }
    // results are handed from the driver (possibly a pool task) to the main thread through relaxed atomics only
    // (static storage: see Shared04)
    struct Rlx {
      std::atomic<long> v{0};
      void inc() { v.fetch_add(1, std::memory_order_relaxed); }
      void set() { v.store(1, std::memory_order_relaxed); }
      void clear() { v.store(0, std::memory_order_relaxed); }
      long get() const { return v.load(std::memory_order_relaxed); }
    };
    static Rlx thrown, direct, deliveredByWait, waitsChecked, capturedRounds, concurrentThrowers, firstDetermined, inlineBulkThrow;
    for (Rlx* x : {&thrown, &direct, &deliveredByWait, &waitsChecked, &capturedRounds, &concurrentThrowers, &firstDetermined, &inlineBulkThrow}) x->clear();
    static std::atomic<int> done05{0};
    done05.store(0, std::memory_order_relaxed);
    {
      dispenso::ThreadPool pool(static_cast<size_t>(s.pool), static_cast<size_t>(s.mult));
      vrt::progress();
      dispenso::ConcurrentTaskSet aux(pool, dispenso::TaskCost::kLightweight); // central queue: every worker looks there (placed work can sit in another group's steal ring)
      Gates& gates = g_sh.gates;
      gates.reset();
      auto driver = [&]() {
        ssize_t N = pool.numThreads();
        bool held = false;
        SetH set(s.kind, pool, dispenso::ParentCascadeCancel::kOff, s.stealMult);
        g_sentinel.watch(set.base(), &pool);
        std::vector<Delivery> deliveries; // every exception that reached harness code, in order
        std::vector<char> isDirect(static_cast<size_t>(s.ntasks) + 1, 0);
        std::vector<char> accounted(static_cast<size_t>(s.ntasks) + 1, 0); // thrown ids already resolved (delivered or dropped with a delivery)
        for (int rd = 0; rd < s.rounds; ++rd) {
          if (s.hold && N > 0) {
            int h = static_cast<int>(s.caller ? N - 1 : N);
            gates.reset();
            for (int i = 0; i < h; ++i) aux.schedule([&gates]() { gates.body(); }, dispenso::ForceQueuingTag());
            gates.waitArrived(h);
            g_sentinel.gatesOpen.store(false);
            held = true;
          }
          int need = 0;
          if (s.rendezvous) {
            for (auto& op : s.ops[static_cast<size_t>(rd)])
              for (int t : s.throwers)
                if (t >= op.first && t < op.first + op.count) ++need;
            if (need > std::max<int>(1, static_cast<int>(N))) need = std::max<int>(1, static_cast<int>(N));
          }
          g_barrierArrived.store(0, std::memory_order_relaxed);
          g_barrierNeed.store(need, std::memory_order_relaxed);
          // ---- scheduling
          struct CallRec {
            int callId, thrownId;
            Op05 op;
          };
          std::vector<std::vector<CallRec>> perProducer(static_cast<size_t>(s.producers));
          auto produce = [&](int p) {
            for (auto& op : s.ops[static_cast<size_t>(rd)]) {
              if (op.producer != p) continue;
              CallRec cr;
              cr.op = op;
              cr.thrownId = doSchedule(set, op.api, op.first, op.count, &cr.callId);
              perProducer[static_cast<size_t>(p)].push_back(cr);
            }
          };
          if (s.producers == 1) {
            produce(0);
          } else {
            std::vector<std::thread> ths;
            for (int p = 0; p < s.producers; ++p) ths.emplace_back(produce, p);
            for (auto& t : ths) t.join();
          }
          for (auto& v : perProducer) {
            for (auto& cr : v) {
              if (cr.thrownId < 0) continue;
              direct.inc();
              deliveries.push_back({cr.thrownId, std::string("direct:") + apiName(cr.op.api)});
              int id = cr.thrownId;
              if (id < 0 || id >= s.ntasks || g_throwOf[id].load() != id) {
                vrt::violation("schedule call threw an exception no body threw", J().kv("id", id), "direct");
                continue;
              }
              isDirect[static_cast<size_t>(id)] = 1;
              if (g_mon.inlineOfCall[id].load() != cr.callId) {
                vrt::violation("exception propagated out of a schedule call that did not run the throwing body inline", J().kv("id", id).kv("api", apiName(cr.op.api)), "direct");
              }
            }
          }
          // ---- waiting
          auto openGates = [&]() {
            if (held) {
              gates.open();
              g_sentinel.gatesOpen.store(true);
              held = false;
            }
          };
          if (!(s.hold && s.waitMode == 1)) openGates();
          bool completedSeen = false;
          int waitCalls = s.tryWaits + 1 + s.extraWaits;
          for (int w = 0; w < waitCalls; ++w) {
            bool isTry = w < s.tryWaits || (w > s.tryWaits && (w & 1));
            int got = -1;
            bool ret = false;
            try {
              ret = isTry ? set.tryWait(static_cast<size_t>(s.tryWaitN)) : set.wait();
            } catch (const VEx& e) {
              got = e.id;
            }
            vrt::progress(); // the wait call returned
            long infl = g_mon.inflight.load();
            ssize_t out = set.outstanding();
            bool completing = !isTry || got >= 0 || ret || out == 0;
            if (got >= 0) {
              deliveredByWait.inc();
              deliveries.push_back({got, isTry ? "tryWait" : "wait"});
              if (infl != 0 || out != 0) {
                vrt::violation("exception delivered while tasks of the set were still unfinished", J().kv("inflight", infl).kv("outstanding", static_cast<long>(out)).kv("id", got), "early-delivery");
              }
            }
            if (!isTry || ret) {
              if (infl != 0 || out != 0) vrt::violation("wait()/tryWait()==true returned with unfinished tasks", J().kv("inflight", infl).kv("outstanding", static_cast<long>(out)), "accounting", "C02");
            }
            if (!completing) continue;
            // the set is complete: every body that will ever run in this round has run
            waitsChecked.inc();
            std::vector<int> pending;
            for (int t : s.throwers) {
              if (g_mon.ran[t].load() && !isDirect[static_cast<size_t>(t)] && !accounted[static_cast<size_t>(t)]) pending.push_back(t);
            }
            if (!pending.empty()) {
              capturedRounds.inc();
              if (got < 0) {
                if (isTry && !ret && out == 0 && !completedSeen) {
                  // tryWait saw outstanding != 0 and returned false before the last task finished: not an observation of completion
                  continue;
                }
                vrt::violation("a completed wait did not rethrow although an exception was captured and not yet delivered",
                               J().kv("pending", static_cast<long>(pending.size())).kv("call", isTry ? "tryWait" : "wait").kv("returned", ret), "lost");
              } else if (std::find(pending.begin(), pending.end(), got) == pending.end()) {
                vrt::violation("wait delivered an exception that is not among the captured, undelivered ones", J().kv("id", got), "wrong-exception");
              } else {
                // which one is "first" is determined when one thread ran all throwers of this batch
                int th0 = g_mon.runThread[pending[0]].load();
                bool same = true;
                int firstId = pending[0];
                for (int t : pending) {
                  if (g_mon.runThread[t].load() != th0) same = false;
                  if (g_throwStamp[t].load() < g_throwStamp[firstId].load()) firstId = t;
                }
                if (pending.size() > 1) {
                  if (same) {
                    firstDetermined.set();
                    if (got != firstId) vrt::violation("the rethrown exception is not the first one captured (all throwers ran sequentially on one thread)", J().kv("got", got).kv("first", firstId), "not-first");
                  } else {
                    concurrentThrowers.set();
                  }
                }
              }
              for (int t : pending) accounted[static_cast<size_t>(t)] = 1;
            } else if (got >= 0) {
              vrt::violation("wait threw although no captured exception was pending", J().kv("id", got).kv("call", isTry ? "tryWait" : "wait"), "spurious");
            }
            completedSeen = true;
          }
          openGates();
          if (!completedSeen) {
            // only tryWait calls that never completed: finish the round
            try {
              set.wait();
            } catch (const VEx& e) {
              deliveries.push_back({e.id, "wait"});
              deliveredByWait.inc();
              for (int t : s.throwers)
                if (g_mon.ran[t].load()) accounted[static_cast<size_t>(t)] = 1;
            }
          }
          if (held) openGates();
          aux.wait();
        }
        // each exception object is delivered at most once over the whole life of the set
        for (size_t i = 0; i < deliveries.size(); ++i) {
          for (size_t k = i + 1; k < deliveries.size(); ++k) {
            if (deliveries[i].id == deliveries[k].id) {
              vrt::violation("the same exception was delivered twice", J().kv("id", deliveries[i].id).kv("first", deliveries[i].where).kv("second", deliveries[k].where), "twice");
            }
          }
        }
        for (int t : s.throwers) {
          if (g_mon.ran[t].load()) {
            thrown.inc();
            int ic = g_mon.inlineOfCall[t].load();
            if (ic >= 0 && !isDirect[static_cast<size_t>(t)]) inlineBulkThrow.set();
          }
          if (g_mon.ran[t].load() > 1) vrt::violation("a body ran twice", J().kv("id", t), "twice-run", "C02");
        }
        // final wait in the destructor must not throw (everything captured has been delivered)
        g_sentinel.unwatch();
      };
      if (s.caller == 1) {
        pool.schedule(
            [&driver]() {
              driver();
              done05.store(1, HS_REL);
            },
            dispenso::ForceQueuingTag());
        while (!done05.load(HS_ACQ)) vrt::sleepUs(30);
      } else {
        driver();
      }
      gates.open();
      aux.wait();
    }
    vrt::watchdogDisarm();
    vrt::hooksReset();
    std::vector<std::string> classes;
    classes.push_back(std::string("kind:") + kindName(s.kind));
    if (s.pool == 0) classes.push_back("pool0");
    if (direct.get()) classes.push_back("direct-propagation");
    if (deliveredByWait.get()) classes.push_back("delivered-by-wait");
    if (concurrentThrowers.get()) classes.push_back("concurrent-throwers");
    if (firstDetermined.get()) classes.push_back("first-determined");
    if (inlineBulkThrow.get()) classes.push_back("captured-inline-throw");
    if (s.producers > 1) classes.push_back("multi-producer");
    if (s.caller) classes.push_back("pool-recursive-caller");
    if (s.tryWaits) classes.push_back("tryWait");
    if (s.rounds > 1) classes.push_back("multi-round");
    bool nt = thrown.get() > 0;
    vrt::caseEnd(J().kv("tasks", s.ntasks).kv("thrown", thrown.get()).kv("direct", direct.get()).kv("deliveredByWait", deliveredByWait.get()).kv("waitsChecked", waitsChecked.get()).kv("capturedRounds", capturedRounds.get()).kv("bodiesRun", g_mon.started.load()),
                 nt ? s.json().str() : "", classes);
  }
}

int main(int argc, char** argv) {
  vrt::init(argc, argv);
  const std::string& p = vrt::g_args.prop;
  if (p == "C04") runC04();
  else if (p == "C05") runC05();
  else {
    fprintf(stderr, "h_cancel: unknown property %s\n", p.c_str());
    return 2;
  }
  return vrt::finish();
}
