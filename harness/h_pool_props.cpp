// Engine h_pool: per-property case generators and verdicts.
#include "h_pool_run.h"

namespace {
Op mkOp(uint8_t kind, uint16_t n = 1, uint8_t act = A_NONE, uint8_t k = 0, uint16_t dwell = 0, uint8_t fat = 0) {
  Op o;
  o.kind = kind;
  o.n = n;
  o.act = act;
  o.k = k;
  o.dwellUs = dwell;
  o.fat = fat;
  return o;
}
const char* sizeClass(int n) {
  return n == 0 ? "pool0" : n <= 8 ? "pool1-8" : "pool9+";
}
bool hasOp(const CaseSpec& s, uint8_t kind) {
  for (auto& p : s.programs)
    for (auto& o : p.ops)
      if (o.kind == kind) return true;
  return false;
}
void commonCountVerdict(const CaseObs& o, const J& spec, bool lostIsDtorClassAllowed) {
  if (o.dup) vrt::violation("a task was invoked more than once", J().kv("duplicates", o.dup).kv("firstId", o.firstDup).kv("obs", o.json()).kv("spec", spec), "duplicate");
  if (o.lost) {
    bool onlyDtorKids = lostIsDtorClassAllowed && o.lostOther == 0;
    vrt::violation(
        onlyDtorKids ? "tasks scheduled by a task that ~ThreadPool drained from a ring/steal ring were never invoked (enqueued after the destructor's last central-queue drain)"
                     : "a task handed to the pool was never invoked by the time ~ThreadPool returned",
        J().kv("lost", o.lost).kv("lostChildrenOfDtorDrainedTasks", o.lostChildOfDtorDrained).kv("firstId", o.firstLost).kv("obs", o.json()).kv("spec", spec),
        onlyDtorKids ? "lost-child-of-dtor-drained-task" : "lost");
  }
  if (o.lateRuns) vrt::violation("a task body ran after ~ThreadPool returned", J().kv("late", o.lateRuns), "late");
  if (o.plainBad) vrt::violation("state written by a task body is not what the reader sees after the barrier", J().kv("bad", o.plainBad), "visibility");
}
void barrierVerdict(const CaseObs& o, const J& spec) {
  if (o.barrierFails) {
    const char* wn[] = {"?", "wait", "tryWait", "destructor", "nested"};
    const char* kn[] = {"?", "TaskSet", "ConcurrentTaskSet(heavy)", "ConcurrentTaskSet(light)"};
    long w = g.failWhere.load(), k = g.failKind.load();
    vrt::violation(
        std::string("task-set barrier returned while scheduled tasks had not finished (") + wn[w < 5 ? w : 0] + ")",
        J().kv("scheduled", g.failSched.load()).kv("finished", g.failDone.load()).kv("set", kn[k < 4 ? k : 0]).kv("fails", o.barrierFails).kv("obs", o.json()).kv("spec", spec),
        std::string("barrier-") + wn[w < 5 ? w : 0]);
  }
  if (o.futNotReady) vrt::violation("a future registered with the task set was not ready after the set's wait returned", J().kv("notReady", o.futNotReady).kv("checked", o.futChecked).kv("spec", spec), "future-not-ready");
}
void ranOnClasses(const CaseObs& o, std::vector<std::string>& cls) {
  for (int i = 1; i < C_NCLS; ++i)
    if (o.cls[i]) cls.push_back(std::string("ran:") + kClsNames[i]);
}
} // namespace

// ================================================================== C01
void runC01() {
  const bool th = vrt::thorough();
  const long n = vrt::g_args.getInt("n", th ? 20000 : 480);
  const long nScript = vrt::g_args.getInt("scripted", th ? 200 : 16);
  // scripted: the pool is destroyed at zero threads with a task in its central queue (schedule raced resize(0))
  for (long idx = n + nScript; idx < n + 2 * nScript; ++idx) {
    if (!vrt::selected(idx)) continue;
    vrt::Rng r = vrt::caseRng(idx);
    ScriptSpec sp;
    sp.kind = SK_FQ_AFTER_RESIZE0;
    sp.N = static_cast<int>(r.range(1, 9));
    sp.target = 0;
    sp.via = r.chance(0.5) ? 0 : 2;
    sp.count = static_cast<int>(r.range(2, 6));
    static const int mults[] = {1, 32};
    sp.mult = r.pick(mults);
    J spec = sp.json();
    vrt::caseBegin(idx, std::string("scripted/dtor-zero-thread-queue/") + (sp.via ? "schedule" : "fq"), spec);
    vrt::watchdogArm();
    ScriptObs so = runScript(sp);
    vrt::watchdogDisarm();
    if (!so.reached) vrt::inconclusive(so.why);
    commonCountVerdict(so.c, spec, false);
    std::vector<std::string> cls{"script:dtor-zero-thread-queue"};
    if (so.reached && so.stranded && so.ranInDtor) cls.push_back("zero-thread-dtor-drained");
    vrt::caseEnd(J().kv("queuedAtZeroThreads", so.stranded).kv("ranInDtor", so.ranInDtor).kv("obs", so.c.json()), so.reached ? spec.str() : "", cls);
  }
  for (long idx = n; idx < n + nScript; ++idx) {
    if (!vrt::selected(idx)) continue;
    vrt::Rng r = vrt::caseRng(idx);
    int N = static_cast<int>(r.range(2, 6));
    J spec = J().kv("script", "dtor-hint-race").kv("N", N).kv("i", idx - n);
    vrt::caseBegin(idx, "scripted/dtor-hint-race", spec);
    vrt::watchdogArm();
    DtorHintObs ho = runDtorHintScript(N);
    vrt::watchdogDisarm();
    if (!ho.reached) vrt::inconclusive(ho.why);
    commonCountVerdict(ho.c, spec, false);
    std::vector<std::string> cls{"script:dtor-hint-race"};
    if (ho.reached) cls.push_back("hint-gate-reached");
    if (ho.kidRanInDtor) cls.push_back("post-join-drain-ran-a-task");
    vrt::caseEnd(J().kv("reached", ho.reached).kv("kidRanInDtor", ho.kidRanInDtor).kv("obs", ho.c.json()), ho.reached ? spec.str() : "", cls);
  }
  for (long idx = 0; idx < n; ++idx) {
    if (!vrt::selected(idx)) continue;
    vrt::Rng r = vrt::caseRng(idx);
    CaseSpec s;
    static const int sizesQ[] = {1, 1, 2, 2, 3, 4, 5, 7, 8, 9, 9, 16, 17};
    s.N = r.chance(0.12) ? 0 : (th ? static_cast<int>(r.range(1, 17)) : r.pick(sizesQ));
    static const int mults[] = {1, 2, 32};
    s.mult = r.pick(mults);
    s.mode = r.chance(0.3) ? 1 : 0;
    int P = static_cast<int>(r.range(1, 6));
#if VRT_TSAN
    // thread creation is very expensive under TSan: smaller pools, fewer producers
    if (s.N > 9) s.N = 9;
    if (P > 3) P = 3;
#endif
    bool anyFut = false, futKids = false, poolProducer = false;
    // futures whose functor schedules children reach a known defect of the destructor: keep them a minority class
    const bool allowFut = r.chance(0.6), allowFutKids = allowFut && r.chance(0.35);
    long budget = 0;
    for (int p = 0; p < P; ++p) {
      Program prog;
      int nops = static_cast<int>(r.range(3, 36));
      for (int i = 0; i < nops && budget < 1800; ++i) {
        double x = (r.next() >> 11) * (1.0 / 9007199254740992.0);
        uint8_t act = A_NONE, k = 0;
        if (r.chance(0.25)) {
          static const uint8_t acts[] = {A_KIDS_POOL, A_KIDS_POOL_FQ, A_KIDS_BULK};
          act = r.pick(acts);
          static const uint8_t bk[] = {1, 3, 17};
          k = act == A_KIDS_BULK ? r.pick(bk) : static_cast<uint8_t>(r.range(1, 4));
        }
        uint16_t dwell = r.chance(0.2) ? static_cast<uint16_t>(r.range(1, 40)) : 0;
        if (x < 0.33) {
          prog.ops.push_back(mkOp(O_SCHED, 1, act, k, dwell, r.chance(0.15) ? 1 : 0));
          budget += 1 + k;
        } else if (x < 0.53) {
          prog.ops.push_back(mkOp(O_SCHED_FQ, 1, act, k, dwell));
          budget += 1 + k;
        } else if (x < 0.73) {
          const int bn[] = {0, 1, 15, 16, 17, 100, s.N, 2 * s.N + 1};
          uint16_t bnv = static_cast<uint16_t>(r.pick(bn));
          prog.ops.push_back(mkOp(O_BULK, bnv, A_NONE, 0, dwell));
          budget += bnv;
        } else if (x < 0.90 && allowFut) {
          if (!allowFutKids) {
            act = A_NONE;
            k = 0;
          }
          prog.ops.push_back(mkOp(r.chance(0.25) ? O_FUT_ASYNC : O_FUT, 1, act, k, dwell));
          anyFut = true;
          if (act != A_NONE) futKids = true;
          budget += 1 + k;
        } else if (x < 0.95) {
          prog.ops.push_back(mkOp(O_YIELD));
        } else {
          prog.ops.push_back(mkOp(O_SLEEP, static_cast<uint16_t>(r.range(1, 200))));
        }
      }
      s.programs.push_back(prog);
      if (r.chance(0.4)) {
        s.poolTasks.push_back(p);
        poolProducer = true;
      } else {
        s.ext.push_back(p);
      }
    }
    if (s.N >= 1 && r.chance(0.4)) {
      const int gs[] = {1, std::max(1, s.N / 2), s.N, s.N};
      s.gates = r.pick(gs);
      static const int rel[] = {0, 1, 2, 2};
      s.gateRelease = r.pick(rel);
    }
    // ending with a future makes "the destructor starts while a placed task is still in a steal ring" likely
    bool tailFut = allowFut && r.chance(0.5);
    if (tailFut) {
      Program tail;
      int nf = static_cast<int>(r.range(1, 4));
      bool kids = allowFutKids;
      for (int i = 0; i < nf; ++i) tail.ops.push_back(mkOp(r.chance(0.5) ? O_FUT_ASYNC : O_FUT, 1, kids ? A_KIDS_POOL : A_NONE, kids ? 2 : 0, 0));
      s.programs.push_back(tail);
      s.mainProg = static_cast<int>(s.programs.size()) - 1;
      anyFut = true;
      if (kids) futKids = true;
    }
    static const double pert[] = {0, 0, 0.03, 0.15};
    s.perturb = r.pick(pert);
    if (r.chance(0.2)) s.futexDelay = 0.2;
    if (r.chance(0.1)) s.futexSpur = 0.05;
    std::string gateCls = s.gates ? (s.gateRelease == 2 ? "gated-dtor" : s.gateRelease == 1 ? "gated-late" : "gated-early") : "free";
    std::string key = std::string("dtor/") + sizeClass(s.N) + "/" + (s.mode ? "poll" : "wake") + "/" + gateCls + "/" + (futKids ? "futkids" : anyFut ? "fut" : "nofut");
    J spec = s.json();
    vrt::caseBegin(idx, key, spec);
    vrt::watchdogArm();
    CaseObs o = runCase(s);
    vrt::watchdogDisarm();
    commonCountVerdict(o, spec, true);
    if (!o.dtorGateReached) vrt::inconclusive("destructor gate not reached");
    std::vector<std::string> cls{sizeClass(s.N), s.mode ? "poll" : "wake", gateCls};
    if (anyFut) cls.push_back("fut");
    if (futKids) cls.push_back("futkids");
    if (poolProducer) cls.push_back("pool-task-producer");
    if (P > 1) cls.push_back("multi-producer");
    if (hasOp(s, O_SCHED_FQ)) cls.push_back("fq");
    for (auto& p : s.programs)
      for (auto& op : p.ops)
        if (op.kind == O_BULK && op.n > 16) {
          cls.push_back("bulk>16");
          goto doneBulk;
        }
  doneBulk:
    if (s.mult == 1) cls.push_back("mult1");
    ranOnClasses(o, cls);
    vrt::caseEnd(o.json(), o.ids >= 2 ? spec.str() : "", cls);
  }
}

// ================================================================== C02
namespace {
void genSetProgram(vrt::Rng& r, Program& prog, int N, bool cts, bool allowFutures, long& budget, bool& recursive, bool allowTryWait0) {
  if (allowFutures && r.chance(0.08)) {
    // future ping-pong: wait() right after a single set-bound future, many times (is_ready must hold each time)
    int reps = static_cast<int>(r.range(30, 120));
    for (int i = 0; i < reps; ++i) {
      prog.ops.push_back(mkOp(r.chance(0.8) ? O_TS_FUT : O_TS_THEN));
      prog.ops.push_back(mkOp(O_TS_WAIT));
    }
    budget += 2 * reps;
    return;
  }
  int segs = static_cast<int>(r.range(1, 4));
  for (int sg = 0; sg < segs; ++sg) {
    int nsub = static_cast<int>(r.range(1, 14));
    for (int i = 0; i < nsub && budget < 900; ++i) {
      double x = (r.next() >> 11) * (1.0 / 9007199254740992.0);
      uint8_t act = A_NONE, k = 0;
      if (r.chance(0.3)) {
        if (cts && r.chance(0.6)) {
          act = r.chance(0.5) ? A_KIDS_SET : A_KIDS_SET_BULK;
          k = static_cast<uint8_t>(r.range(1, 5));
        } else {
          act = r.chance(0.5) ? A_NESTED_TS : A_NESTED_CTS;
          k = static_cast<uint8_t>(r.range(1, 4));
        }
        recursive = true;
      }
      uint16_t dwell = r.chance(0.5) ? static_cast<uint16_t>(r.range(1, 60)) : 0;
      if (x < 0.30) {
        prog.ops.push_back(mkOp(O_TS_SCHED, 1, act, k, dwell, r.chance(0.1) ? 1 : 0));
        budget += 1 + k;
      } else if (x < 0.45) {
        prog.ops.push_back(mkOp(O_TS_SCHED_FQ, 1, act, k, dwell));
        budget += 1 + k;
      } else if (x < 0.65) {
        const int bn[] = {0, 1, 2, N, N + 1, 16, 17, 40};
        uint16_t v = static_cast<uint16_t>(r.pick(bn));
        prog.ops.push_back(mkOp(O_TS_BULK, v, A_NONE, 0, dwell));
        budget += v;
      } else if (x < 0.75) {
        const int bn[] = {1, 2, N + 1, 17, 33};
        uint16_t v = static_cast<uint16_t>(r.pick(bn));
        prog.ops.push_back(mkOp(O_TS_BULK_FQ, v, A_NONE, 0, dwell));
        budget += v;
      } else if (x < 0.85 && allowFutures) {
        prog.ops.push_back(mkOp(O_TS_FUT, 1, act, k, dwell));
        budget += 1 + k;
      } else if (x < 0.91 && allowFutures) {
        prog.ops.push_back(mkOp(O_TS_THEN, 1, A_NONE, 0, dwell));
        budget += 2;
      } else if (x < 0.94 && allowFutures) {
        prog.ops.push_back(mkOp(O_TS_WHENALL));
      } else if (x < 0.98) {
        uint16_t v = static_cast<uint16_t>(r.range(1, 40));
        prog.ops.push_back(mkOp(r.chance(0.5) ? O_TS_PARFOR : O_TS_PARFOR_NOWAIT, v, A_NONE, 0, dwell));
        budget += v;
      } else {
        prog.ops.push_back(mkOp(O_YIELD));
      }
    }
    if (sg + 1 < segs || r.chance(0.6)) {
      if (r.chance(0.35)) {
        const int tw[] = {0, 1, 2, 7};
        int v = r.pick(tw);
        if (v == 0 && !allowTryWait0) v = 1;
        prog.ops.push_back(mkOp(O_TS_TRYWAIT, static_cast<uint16_t>(v)));
      } else {
        prog.ops.push_back(mkOp(O_TS_WAIT));
      }
    }
  }
}
} // namespace

void runC02() {
  const bool th = vrt::thorough();
  const long n = vrt::g_args.getInt("n", th ? 20000 : 800);
  for (long idx = 0; idx < n; ++idx) {
    if (!vrt::selected(idx)) continue;
    vrt::Rng r = vrt::caseRng(idx);
    if (r.chance(0.09)) {
      // inline-depth cap: see h_pool_depth.cpp
      DepthSpec d;
      d.N = static_cast<int>(r.range(1, 3));
      d.setKind = static_cast<int>(r.range(1, 3));
      d.via = r.chance(0.4) ? 1 : 0;
      d.bulkN = static_cast<int>(r.range(1, 3));
      d.chainLen = static_cast<int>(r.range(34, 44));
      d.leaves = static_cast<int>(r.range(2, 5));
      d.leafDwellUs = static_cast<int>(r.range(1000, 20000));
      // TaskSet::schedule runs f() without a depth guard once outstanding > load factor: keep that branch out
      d.stealMult = d.setKind == 1 ? 64 : (r.chance(0.5) ? 1 : 4);
      d.fillers = 2 * d.N + static_cast<int>(r.range(4, 12));
      d.finish = static_cast<int>(r.below(3));
      const char* skn[] = {"", "TS", "CTSh", "CTSl"};
      J spec = d.json();
      vrt::caseBegin(idx, std::string(skn[d.setKind]) + "/inline-depth-cap/" + (d.via ? "bulk" : "schedule"), spec);
      vrt::watchdogArm();
      DepthObs o = runDepthCap(d);
      vrt::watchdogDisarm();
      barrierVerdict(o.c, spec);
      if (o.c.dup || o.c.lost) vrt::violation("a task-set task did not run exactly once", J().kv("lost", o.c.lost).kv("dup", o.c.dup).kv("obs", o.c.json()).kv("spec", spec), "count");
      std::vector<std::string> cls{skn[d.setKind], "poolN", "recursive", d.finish == 0 ? "wait" : d.finish == 1 ? "tryWait" : "dtor-barrier"};
      bool capped = o.capHits > 0 && o.maxInlineDepth >= dispenso::detail::kMaxInlineDepth;
      if (capped) {
        cls.push_back("inline-depth-cap");
        cls.push_back(std::string("inline-depth-cap:") + skn[d.setKind] + (d.via ? ".bulk" : ".schedule"));
      }
      if (o.tryWait0Polls) cls.push_back("tryWait0-polled");
      ranOnClasses(o.c, cls);
      vrt::caseEnd(J().kv("maxNest", o.maxNest).kv("maxInlineDepth", o.maxInlineDepth).kv("capHits", o.capHits).kv("tryWait0Polls", o.tryWait0Polls)
                       .kv("tryWait0True", o.tryWait0True).kv("obs", o.c.json()),
                   capped ? spec.str() : "", cls);
      continue;
    }
    if (r.chance(0.06)) {
      // ring overflow: all workers held, 5 owners push ring-path bulks up to their load factor (5 per ring
      // each > 16 slots), so the fall-back from a full per-thread ring to the central queue is taken
      CaseSpec s;
      s.N = static_cast<int>(r.range(2, 4));
      s.mult = 32;
      s.gates = s.N;
      s.gateRelease = 1;
      for (int p = 0; p < 5; ++p) {
        Program prog;
        prog.setKind = r.chance(0.7) ? 1 : 3;
        prog.stealMult = 4;
        for (int i = 0; i < 6; ++i) prog.ops.push_back(mkOp(O_TS_BULK, static_cast<uint16_t>(s.N), A_NONE, 0, static_cast<uint16_t>(r.range(0, 10))));
        prog.ops.push_back(mkOp(O_SLEEP, 3000));
        prog.ops.push_back(mkOp(r.chance(0.5) ? O_TS_WAIT : O_YIELD));
        s.programs.push_back(prog);
        s.ext.push_back(p);
      }
      J spec = s.json();
      vrt::caseBegin(idx, "TS/ring-overflow", spec);
      vrt::watchdogArm();
      CaseObs o = runCase(s);
      vrt::watchdogDisarm();
      barrierVerdict(o, spec);
      if (o.dup || o.lost) vrt::violation("a task-set task did not run exactly once", J().kv("lost", o.lost).kv("dup", o.dup).kv("obs", o.json()).kv("spec", spec), "count");
      std::vector<std::string> cls{"ring-overflow", "multi-producer", "bulk", "wait", "dtor-barrier"};
      ranOnClasses(o, cls);
      vrt::caseEnd(o.json(), spec.str(), cls);
      continue;
    }
    CaseSpec s;
    s.N = static_cast<int>(r.range(0, 9));
    static const int mults[] = {1, 2, 32, 32};
    s.mult = r.pick(mults);
    s.mode = r.chance(0.2) ? 1 : 0;
    Program prog;
    prog.setKind = static_cast<int>(r.range(1, 3));
    prog.stealMult = r.chance(0.5) ? 1 : 4;
    long budget = 0;
    bool recursive = false;
    int ctx = r.chance(0.3) ? 1 : 0;
    // tryWait(0) can only succeed through other pool threads: not with zero threads, not from a pool task
    genSetProgram(r, prog, s.N, prog.setKind >= 2, true, budget, recursive, s.N > 0 && ctx == 0);
    s.programs.push_back(prog);
    if (ctx == 0) s.mainProg = 0;
    else s.poolTasks.push_back(0);
    s.joinPoolTasks = true;
    // concurrent producers on a shared ConcurrentTaskSet owned by main
    int extra = 0;
    if (r.chance(0.4)) {
      s.ctsKind = r.chance(0.5) ? 2 : 3;
      s.ctsSteal = r.chance(0.5) ? 1 : 4;
      extra = static_cast<int>(r.range(1, 3));
      for (int e = 0; e < extra; ++e) {
        Program p;
        int nops = static_cast<int>(r.range(2, 20));
        for (int i = 0; i < nops && budget < 1400; ++i) {
          uint8_t act = A_NONE, k = 0;
          if (r.chance(0.25)) {
            act = r.chance(0.5) ? A_KIDS_SET : A_KIDS_SET_BULK;
            k = static_cast<uint8_t>(r.range(1, 4));
            recursive = true;
          }
          uint16_t dwell = r.chance(0.5) ? static_cast<uint16_t>(r.range(1, 40)) : 0;
          switch (r.below(5)) {
            case 0:
            case 1: p.ops.push_back(mkOp(O_G_SCHED, 1, act, k, dwell)); budget += 1 + k; break;
            case 2: p.ops.push_back(mkOp(O_G_SCHED_FQ, 1, act, k, dwell)); budget += 1 + k; break;
            case 3: {
              const int bn[] = {1, s.N, 17, 30};
              uint16_t v = static_cast<uint16_t>(r.pick(bn));
              p.ops.push_back(mkOp(r.chance(0.3) ? O_G_BULK_FQ : O_G_BULK, v, A_NONE, 0, dwell));
              budget += v;
              break;
            }
            default: p.ops.push_back(mkOp(O_G_FUT, 1, A_NONE, 0, dwell)); budget += 1; break;
          }
        }
        s.programs.push_back(p);
        s.ext.push_back(static_cast<int>(s.programs.size()) - 1);
      }
    }
    static const double pert[] = {0, 0.05, 0.2};
    s.perturb = r.pick(pert);
    if (r.chance(0.15)) s.futexSpur = 0.05;
    const char* sk[] = {"", "TS", "CTSh", "CTSl"};
    std::string key = std::string(sk[prog.setKind]) + "/" + (ctx ? "owner-pool-task" : "owner-external") + "/" + (s.N == 0 ? "pool0" : "poolN") + "/" + (recursive ? "recursive" : "flat") + (extra ? "/shared-cts" : "");
    J spec = s.json();
    vrt::caseBegin(idx, key, spec);
    vrt::watchdogArm();
    CaseObs o = runCase(s);
    vrt::watchdogDisarm();
    barrierVerdict(o, spec);
    if (o.dup || o.lost) vrt::violation("a task-set task did not run exactly once", J().kv("lost", o.lost).kv("dup", o.dup).kv("obs", o.json()).kv("spec", spec), "count");
    std::vector<std::string> cls{sk[prog.setKind], s.N == 0 ? "pool0" : "poolN", ctx ? "owner-pool-task" : "owner-external"};
    if (recursive) cls.push_back("recursive");
    if (extra) cls.push_back("multi-producer");
    if (hasOp(s, O_TS_TRYWAIT)) cls.push_back("tryWait");
    if (hasOp(s, O_TS_WAIT)) cls.push_back("wait");
    cls.push_back("dtor-barrier");
    if (hasOp(s, O_TS_FUT) || hasOp(s, O_G_FUT)) cls.push_back("future");
    if (hasOp(s, O_TS_THEN)) cls.push_back("then");
    if (hasOp(s, O_TS_WHENALL)) cls.push_back("when_all");
    if (hasOp(s, O_TS_BULK)) cls.push_back("bulk");
    if (hasOp(s, O_TS_BULK_FQ) || hasOp(s, O_TS_SCHED_FQ)) cls.push_back("fq");
    if (hasOp(s, O_TS_PARFOR) || hasOp(s, O_TS_PARFOR_NOWAIT)) cls.push_back("parfor");
    if (o.tryWaitFalse) cls.push_back("tryWait-false-seen");
    if (o.maxOutstandingAtWait > 0) cls.push_back("wait-with-outstanding");
    ranOnClasses(o, cls);
    J st = o.json();
    vrt::caseEnd(st, (o.barrierChecks >= 1 && o.ids >= 2) ? spec.str() : "", cls);
  }
}

// ================================================================== C47
void runC47() {
  const bool th = vrt::thorough();
  const long n = vrt::g_args.getInt("n", th ? 12000 : 640);
  for (long idx = 0; idx < n; ++idx) {
    if (!vrt::selected(idx)) continue;
    vrt::Rng r = vrt::caseRng(idx);
    CaseSpec s;
    s.N = static_cast<int>(r.range(1, th ? 17 : 9));
    static const int mults[] = {1, 1, 2, 32};
    s.mult = r.pick(mults);
    int load = static_cast<int>(r.below(4)); // 0 idle, 1 overloaded, 2 pool-recursive, 3 pool-recursive + overloaded
    if (load == 3 && s.N < 2) load = 2;
    Program prog;
    prog.setKind = static_cast<int>(r.below(4));
    prog.stealMult = r.chance(0.5) ? 1 : 4;
    bool useCts = r.chance(0.5);
    if (useCts) {
      s.ctsKind = r.chance(0.5) ? 2 : 3;
      s.ctsSteal = prog.stealMult;
    }
    long fill = 0;
    if (load == 1 || load == 3) {
      s.gates = load == 1 ? s.N : s.N - 1;
      s.gateRelease = 1;
      fill = std::min<long>(static_cast<long>(s.N) * s.mult + 3, 300);
      for (long i = 0; i < fill; ++i) prog.ops.push_back(mkOp(O_SCHED_FQ));
    }
    int nops = static_cast<int>(r.range(4, 30));
    for (int i = 0; i < nops; ++i) {
      uint16_t dwell = r.chance(0.3) ? static_cast<uint16_t>(r.range(1, 30)) : 0;
      uint8_t act = A_NONE, k = 0;
      if (r.chance(0.15)) {
        act = A_KIDS_POOL_FQ; // children are force-queued from whatever thread runs the parent
        k = static_cast<uint8_t>(r.range(1, 3));
      }
      switch (r.below(10)) {
        case 0:
        case 1: prog.ops.push_back(mkOp(O_SCHED_FQ, 1, act, k, dwell)); break;
        case 2: prog.ops.push_back(mkOp(O_SCHED, 1, A_NONE, 0, dwell)); break; // probe: may run inline under load
        case 3: prog.ops.push_back(mkOp(O_TS_SCHED_FQ, 1, act, k, dwell)); break;
        case 4: {
          const int bn[] = {1, 2, s.N, s.N + 1, 17, 40};
          prog.ops.push_back(mkOp(O_TS_BULK_FQ, static_cast<uint16_t>(r.pick(bn)), A_NONE, 0, dwell));
          break;
        }
        case 5: prog.ops.push_back(mkOp(O_TS_SCHED, 1, A_NONE, 0, dwell)); break;
        case 6: prog.ops.push_back(mkOp(O_G_SCHED_FQ, 1, act, k, dwell)); break;
        case 7: {
          const int bn[] = {1, 3, s.N, 2 * s.N + 1, 33};
          prog.ops.push_back(mkOp(O_G_BULK_FQ, static_cast<uint16_t>(r.pick(bn)), A_NONE, 0, dwell));
          break;
        }
        case 8: prog.ops.push_back(mkOp(O_FUT_ASYNC, 1, A_NONE, 0, dwell)); break;
        default: prog.ops.push_back(mkOp(r.chance(0.5) ? O_TS_WAIT : O_YIELD)); break;
      }
    }
    s.programs.push_back(prog);
    if (load >= 2) s.poolTasks.push_back(0);
    else s.mainProg = 0;
    s.joinPoolTasks = true;
    static const double pert[] = {0, 0, 0.1};
    s.perturb = r.pick(pert);
    const char* ln[] = {"idle", "overloaded", "pool-recursive", "pool-recursive-overloaded"};
    const char* sk[] = {"noset", "TS", "CTSh", "CTSl"};
    std::string key = std::string(ln[load]) + "/" + sk[prog.setKind] + (useCts ? (s.ctsKind == 2 ? "+gCTSh" : "+gCTSl") : "");
    J spec = s.json();
    vrt::caseBegin(idx, key, spec);
    vrt::watchdogArm();
    CaseObs o = runCase(s);
    vrt::watchdogDisarm();
    if (o.fqInline) {
      vrt::violation("a ForceQueuingTag submission ran its functor on the submitting thread before the call returned",
                     J().kv("count", o.fqInline).kv("taskId", g.fqInlineId.load()).kv("obs", o.json()).kv("spec", spec));
    }
    if (o.dup || o.lost) vrt::violation("a task did not run exactly once", J().kv("lost", o.lost).kv("dup", o.dup).kv("spec", spec), "count", "C01");
    std::vector<std::string> cls{ln[load], std::string("mult") + std::to_string(s.mult)};
    if (hasOp(s, O_SCHED_FQ)) cls.push_back("pool.schedule-fq");
    if (prog.setKind && hasOp(s, O_TS_SCHED_FQ)) cls.push_back(std::string(sk[prog.setKind]) + ".schedule-fq");
    if (prog.setKind && hasOp(s, O_TS_BULK_FQ)) cls.push_back(std::string(sk[prog.setKind]) + ".bulk-fq");
    if (useCts && hasOp(s, O_G_SCHED_FQ)) cls.push_back(std::string(s.ctsKind == 2 ? "CTSh" : "CTSl") + ".schedule-fq");
    if (useCts && hasOp(s, O_G_BULK_FQ)) cls.push_back(std::string(s.ctsKind == 2 ? "CTSh" : "CTSl") + ".bulk-fq");
    if (o.cls[C_H_INLINE] + o.cls[C_WORKER_INLINE] > 0) cls.push_back("non-fq-ran-inline");
    if ((load == 1 || load == 3) && o.cls[C_H_INLINE] + o.cls[C_WORKER_INLINE] > 0) cls.push_back("overload-confirmed");
    ranOnClasses(o, cls);
    vrt::caseEnd(o.json(), o.fqTasks >= 1 ? spec.str() : "", cls);
  }
}

// ================================================================== C03 / C08 shared generators
namespace {
// resize targets; noshrink: the published ring count never decreases (zeros allowed in between)
void genResizer(vrt::Rng& r, Program& prog, int N0, bool shrink, int R, int& lastTarget, int maxN) {
  int hi = std::max(N0, 1);
  lastTarget = N0;
  for (int i = 0; i < R; ++i) {
    if (r.chance(0.6)) prog.ops.push_back(mkOp(O_SLEEP, static_cast<uint16_t>(r.range(1, 400))));
    if (r.chance(0.12)) {
      prog.ops.push_back(mkOp(O_SETWAKE, r.chance(0.5) ? 1 : 0));
      continue;
    }
    int t;
    if (shrink) {
      t = static_cast<int>(r.range(0, maxN));
    } else {
      if (r.chance(0.3)) t = 0;
      else {
        t = static_cast<int>(r.range(hi, std::min(maxN, hi + 3)));
        hi = std::max(hi, t);
      }
    }
    prog.ops.push_back(mkOp(O_RESIZE, static_cast<uint16_t>(t)));
    lastTarget = t;
  }
}

void genResizeProducer(vrt::Rng& r, Program& prog, bool ring, bool useG, long& budget, bool& recursive) {
  prog.setKind = static_cast<int>(r.below(4));
  prog.stealMult = r.chance(0.3) ? 1 : 4;
  int nops = static_cast<int>(r.range(6, 40));
  bool pending = false;
  for (int i = 0; i < nops && budget < 1500; ++i) {
    uint16_t dwell = r.chance(0.3) ? static_cast<uint16_t>(r.range(1, 40)) : 0;
    uint8_t act = A_NONE, k = 0;
    if (r.chance(0.12)) {
      act = r.chance(0.5) ? A_KIDS_POOL : A_NESTED_TS;
      k = static_cast<uint8_t>(r.range(1, 3));
      recursive = true;
    }
    // bulk sizes: the ring fast path needs count <= numThreads (<= 9 here); counts >= 10 never take it
    uint16_t ringN = static_cast<uint16_t>(r.range(1, 9));
    uint16_t bigN = static_cast<uint16_t>(r.range(10, 40));
    switch (r.below(12)) {
      case 0:
      case 1: prog.ops.push_back(mkOp(O_SCHED, 1, act, k, dwell, r.chance(0.1) ? 1 : 0)); budget += 1 + k; break;
      case 2: prog.ops.push_back(mkOp(O_SCHED_FQ, 1, act, k, dwell)); budget += 1 + k; break;
      case 3: prog.ops.push_back(mkOp(O_BULK, r.chance(0.5) ? ringN : bigN, A_NONE, 0, dwell)); budget += bigN; break;
      case 4: prog.ops.push_back(mkOp(O_FUT, 1, act == A_KIDS_POOL ? act : A_NONE, act == A_KIDS_POOL ? k : 0, dwell)); budget += 1 + k; break;
      case 5: prog.ops.push_back(mkOp(O_TS_SCHED, 1, act, k, dwell)); budget += 1 + k; pending = true; break;
      case 6: prog.ops.push_back(mkOp(O_TS_SCHED_FQ, 1, A_NONE, 0, dwell)); budget += 1; pending = true; break;
      case 7:
      case 8: {
        // TaskSet and lightweight ConcurrentTaskSet bulk can take the ring path; heavy goes through steal rings
        bool canRing = prog.setKind == 1 || prog.setKind == 3;
        uint16_t v = (ring || !canRing) ? (r.chance(0.75) ? ringN : bigN) : bigN;
        prog.ops.push_back(mkOp(O_TS_BULK, v, A_NONE, 0, dwell));
        budget += v;
        pending = true;
        break;
      }
      case 9:
        if (ring) {
          uint16_t v = static_cast<uint16_t>(r.range(1, 60));
          prog.ops.push_back(mkOp(r.chance(0.7) ? O_TS_PARFOR : O_TS_PARFOR_NOWAIT, v, A_NONE, 0, dwell));
          budget += v;
          pending = true;
        } else {
          prog.ops.push_back(mkOp(O_TS_FUT, 1, A_NONE, 0, dwell));
          budget += 1;
          pending = true;
        }
        break;
      case 10:
        if (useG) {
          if (r.chance(0.5)) {
            prog.ops.push_back(mkOp(O_G_SCHED, 1, A_NONE, 0, dwell));
            budget += 1;
          } else {
            uint16_t v = ring ? (r.chance(0.6) ? ringN : bigN) : bigN;
            prog.ops.push_back(mkOp(O_G_BULK, v, A_NONE, 0, dwell));
            budget += v;
          }
        } else {
          prog.ops.push_back(mkOp(O_YIELD));
        }
        break;
      default:
        if (pending && prog.setKind) {
          // tryWait budgets >= 1: a waiter with budget 0 depends on pool threads that a resize(0) removes
          prog.ops.push_back(r.chance(0.3) ? mkOp(O_TS_TRYWAIT, static_cast<uint16_t>(r.range(1, 8))) : mkOp(O_TS_WAIT));
          pending = false;
        } else {
          prog.ops.push_back(mkOp(O_SLEEP, static_cast<uint16_t>(r.range(1, 100))));
        }
        break;
    }
  }
}

struct ResizeCase {
  CaseSpec s;
  bool ring = false, shrink = false, recursive = false;
  int lastTarget = 0;
};
ResizeCase genResizeCase(vrt::Rng& r, int maxN, int maxResizes, bool allowNoResizer) {
  ResizeCase rc;
  CaseSpec& s = rc.s;
  s.N = r.chance(0.1) ? 0 : static_cast<int>(r.range(1, maxN));
  static const int mults[] = {1, 2, 32, 32};
  s.mult = r.pick(mults);
  s.mode = r.chance(0.2) ? 1 : 0;
  rc.ring = r.chance(0.5);
  // ring-path bulk submissions racing a shrink of the ring count is its own (small) class
  rc.shrink = rc.ring ? r.chance(0.15) : r.chance(0.7);
  bool useG = r.chance(0.5);
  if (useG) {
    // the lightweight shared set takes the ring path for small bulks
    s.ctsKind = r.chance(0.5) ? 2 : 3;
    s.ctsSteal = 4;
  }
  int P = static_cast<int>(r.range(1, 4));
  long budget = 0;
  for (int p = 0; p < P; ++p) {
    Program prog;
    genResizeProducer(r, prog, rc.ring, useG, budget, rc.recursive);
    s.programs.push_back(prog);
    s.ext.push_back(p);
  }
  rc.lastTarget = s.N;
  int R = static_cast<int>(r.range(allowNoResizer ? 0 : 1, maxResizes));
  if (R > 0) {
    Program rz;
    genResizer(r, rz, s.N, rc.shrink, R, rc.lastTarget, maxN);
    s.programs.push_back(rz);
    s.resizerProg = static_cast<int>(s.programs.size()) - 1;
  }
  static const double pert[] = {0, 0.05, 0.15};
  s.perturb = r.pick(pert);
  if (r.chance(0.15)) s.futexDelay = 0.2;
  return rc;
}

ScriptSpec genScript(vrt::Rng& r, int kind) {
  ScriptSpec sp;
  sp.kind = kind;
  sp.N = static_cast<int>(r.range(2, 9));
  static const int mults[] = {1, 32};
  sp.mult = r.pick(mults);
  switch (kind) {
    case SK_PUSH_AFTER_SHRINK:
      sp.count = static_cast<int>(r.range((sp.N + 3) / 4 < 2 ? 2 : (sp.N + 3) / 4, sp.N));
      sp.target = static_cast<int>(r.range(1, sp.count - 1));
      sp.setKind = r.chance(0.5) ? 1 : 3;
      break;
    case SK_FQ_AFTER_RESIZE0:
      sp.target = 0;
      sp.via = static_cast<int>(r.below(3));
      sp.count = static_cast<int>(r.range(2, 6));
      break;
    case SK_SHRINK_BEFORE_RINGCOUNT: {
      // ring path: count <= N and 4*count >= N; shrink to a non-zero size below count that does not divide it
      sp.N = static_cast<int>(r.range(3, 9));
      sp.count = static_cast<int>(r.range(std::max(3, (sp.N + 3) / 4), sp.N));
      sp.target = 1;
      for (int tries = 0; tries < 16; ++tries) {
        int t = static_cast<int>(r.range(2, sp.count - 1));
        if (sp.count % t != 0) {
          sp.target = t;
          break;
        }
      }
      sp.setKind = r.chance(0.5) ? 1 : 3;
      break;
    }
    default: {
      sp.count = static_cast<int>(r.range((sp.N + 3) / 4, sp.N));
      int tc = static_cast<int>(r.below(3));
      sp.target = tc == 0 ? 0 : tc == 1 ? static_cast<int>(r.range(1, sp.N - 1)) : static_cast<int>(r.range(sp.N + 1, sp.N + 4));
      sp.setKind = kind == SK_PLACED_AFTER_STOP ? (r.chance(0.5) ? 0 : 2) : (r.chance(0.5) ? 1 : 3);
      sp.repeat = static_cast<int>(r.range(1, 3));
      break;
    }
  }
  return sp;
}
const char* scriptName(int k) {
  const char* kn[] = {"?", "push-after-shrink", "ringbulk-after-join", "ringbulk-after-stop", "placed-after-stop", "fq-after-resize0", "shrink-before-ringcount-load"};
  return kn[k];
}
std::string scriptKey(const ScriptSpec& sp) {
  const char* sk[] = {"future", "TS", "CTSh", "CTSl"};
  std::string k = std::string("scripted/") + scriptName(sp.kind) + "/";
  if (sp.kind == SK_PUSH_AFTER_SHRINK || sp.kind == SK_SHRINK_BEFORE_RINGCOUNT) return k + sk[sp.setKind];
  if (sp.kind == SK_FQ_AFTER_RESIZE0) return k + (sp.via == 1 ? "taskset" : sp.via == 2 ? "pool-schedule-plain" : "pool-schedule");
  return k + sp.targetClass() + "/" + sk[sp.setKind];
}
} // namespace

// ================================================================== C03
void runC03() {
  const bool th = vrt::thorough();
  const long nRand = vrt::g_args.getInt("n", th ? 6000 : 360);
  const long nScript = vrt::g_args.getInt("scripted", th ? 400 : 40);
  const long realWait = vrt::g_args.getInt("realwait", th ? 1 : 0);
  for (long idx = 0; idx < nRand + nScript; ++idx) {
    if (!vrt::selected(idx)) continue;
    vrt::Rng r = vrt::caseRng(idx);
    if (idx < nRand) {
      ResizeCase rc = genResizeCase(r, 9, 8, false);
      CaseSpec& s = rc.s;
      std::string key = std::string("rand/") + (rc.ring ? "ringbulk" : "noring") + "/" + (rc.shrink ? "shrink" : "noshrink");
      J spec = s.json();
      vrt::caseBegin(idx, key, spec);
      vrt::watchdogArm();
      CaseObs o = runCase(s);
      vrt::watchdogDisarm();
      commonCountVerdict(o, spec, false);
      barrierVerdict(o, spec);
      std::vector<std::string> cls{rc.ring ? "ringbulk" : "noring", rc.shrink ? "shrink" : "noshrink"};
      if (o.resizeGrow) cls.push_back("resize:grow");
      if (o.resizeShrink) cls.push_back("resize:shrink");
      if (o.resizeZero) cls.push_back("resize:zero");
      if (hasOp(s, O_SETWAKE)) cls.push_back("setSignalingWake");
      if (hasOp(s, O_TS_PARFOR) || hasOp(s, O_TS_PARFOR_NOWAIT)) cls.push_back("parallel_for");
      if (hasOp(s, O_FUT) || hasOp(s, O_TS_FUT)) cls.push_back("future");
      if (s.ctsKind) cls.push_back("shared-cts");
      if (s.ext.size() > 1) cls.push_back("multi-producer");
      ranOnClasses(o, cls);
      vrt::caseEnd(o.json(), (o.resizes >= 1 && o.ids >= 2) ? spec.str() : "", cls);
    } else {
      static const int kinds[] = {SK_PUSH_AFTER_SHRINK, SK_RINGBULK_AFTER_JOIN, SK_RINGBULK_AFTER_STOP, SK_PLACED_AFTER_STOP, SK_FQ_AFTER_RESIZE0,
                                  SK_RINGBULK_AFTER_JOIN, SK_PUSH_AFTER_SHRINK, SK_PLACED_AFTER_STOP, SK_SHRINK_BEFORE_RINGCOUNT, SK_SHRINK_BEFORE_RINGCOUNT};
      ScriptSpec sp = genScript(r, kinds[r.below(10)]);
      // the real wait() (hang verdict by the watchdog) for a few of the known stranding schedules
      sp.realWait = realWait && sp.kind == SK_PUSH_AFTER_SHRINK && r.chance(0.15);
      std::string key = scriptKey(sp);
      J spec = sp.json();
      vrt::caseBegin(idx, key, spec);
      vrt::watchdogArm();
      ScriptObs so = runScript(sp);
      vrt::watchdogDisarm();
      if (!so.reached) vrt::inconclusive(so.why);
      if (so.stranded) {
        if (sp.kind != SK_FQ_AFTER_RESIZE0) {
          vrt::violation(
              "tasks stranded in per-thread rings with index >= the ring count published by a concurrent resize: neither workers nor the waiter scan them "
              "(tryWait made no progress over 4000 polls with no body running); wait() spins for ever",
              J().kv("outstanding", so.strandedTasks).kv("ringsNonEmptyBeyond", so.ringsBeyond).kv("polls", so.polls).kv("spec", spec));
        } else {
          vrt::violation(
              "a task whose schedule() call raced resize(0) sits in the central queue of a pool with zero threads: no thread runs it until the next resize or ~ThreadPool",
              J().kv("polls", so.polls).kv("spec", spec));
        }
      }
      commonCountVerdict(so.c, spec, false);
      barrierVerdict(so.c, spec);
      std::vector<std::string> cls{std::string("script:") + scriptName(sp.kind)};
      if (sp.kind != SK_PUSH_AFTER_SHRINK && sp.kind != SK_FQ_AFTER_RESIZE0 && sp.kind != SK_SHRINK_BEFORE_RINGCOUNT) cls.push_back(std::string("target:") + sp.targetClass());
      if (sp.kind == SK_FQ_AFTER_RESIZE0 && so.ranInDtor) cls.push_back("zero-thread-dtor-drained");
      if (so.drainedByResize) cls.push_back("resize-drained");
      if (so.reached) cls.push_back("gate-reached");
      vrt::caseEnd(J().kv("stranded", so.stranded).kv("drainedByResize", so.drainedByResize).kv("polls", so.polls).kv("obs", so.c.json()), so.reached ? spec.str() : "", cls);
    }
  }
}

// ================================================================== C08
static void accountingVerdict(const CaseObs& o, const J& spec) {
  if (!o.acctChecked) return;
  if (!o.quiescent) {
    if (o.finalN > 0) vrt::inconclusive("submitted work did not finish although the pool has threads");
    return;
  }
  if (!o.idleSeen) return;
  if (o.drift != 0 || o.probeInline) {
    bool explained = o.drift > 0 && o.drift <= o.resizeRan;
    vrt::violation(
        explained ? "pending-work counter is not zero at quiescence: tasks that resize() drained from rings / steal rings itself were never subtracted"
                  : "pending-work counter is not zero at quiescence",
        J().kv("workRemaining", o.drift).kv("tasksRunInsideResize", o.resizeRan).kv("threads", o.finalN).kv("numNotWorking", o.notWorking)
            .kv("probeRanInlineOnIdlePool", o.probeInline).kv("obs", o.json()).kv("spec", spec),
        explained ? "resize-drained" : "other");
  }
}

void runC08() {
  const bool th = vrt::thorough();
  const long nHist = vrt::g_args.getInt("n", th ? 8000 : 400);
  const long nScript = vrt::g_args.getInt("scripted", th ? 600 : 60);
  for (long idx = 0; idx < nHist + nScript; ++idx) {
    if (!vrt::selected(idx)) continue;
    vrt::Rng r = vrt::caseRng(idx);
    if (idx < nHist) {
      ResizeCase rc = genResizeCase(r, 9, 5, true);
      CaseSpec& s = rc.s;
      // keep the C03 stranding schedule (ring bulk racing a ring-count shrink) out of the accounting histories
      if (rc.ring && rc.shrink) {
        rc.shrink = false;
        if (s.resizerProg >= 0) {
          Program rz;
          vrt::Rng r2 = vrt::caseRng(idx, 77);
          genResizer(r2, rz, s.N, false, static_cast<int>(r2.range(1, 5)), rc.lastTarget, 9);
          s.programs[static_cast<size_t>(s.resizerProg)] = rz;
        }
      }
      s.checkAccounting = true;
      if (rc.lastTarget == 0 || s.N == 0 || r.chance(0.4)) s.finalResize = static_cast<int>(r.range(1, 9));
      if (s.mult == 32 && r.chance(0.5)) s.mult = 1;
      bool resizes = s.resizerProg >= 0 || s.finalResize >= 0;
      std::string key = std::string("hist/") + (rc.ring ? "ringbulk" : "noring") + "/" + (resizes ? "resizes" : "noresize");
      J spec = s.json();
      vrt::caseBegin(idx, key, spec);
      vrt::watchdogArm();
      CaseObs o = runCase(s);
      vrt::watchdogDisarm();
      accountingVerdict(o, spec);
      if (o.dup || o.lost) vrt::violation("a task did not run exactly once", J().kv("lost", o.lost).kv("dup", o.dup).kv("spec", spec), "count", "C03");
      std::vector<std::string> cls{rc.ring ? "ringbulk" : "noring", resizes ? "resizes" : "noresize"};
      if (o.acctChecked && o.quiescent && o.idleSeen) cls.push_back("accounting-checked");
      if (o.acctChecked && !o.idleSeen && o.quiescent) cls.push_back("idle-not-observed");
      if (o.cls[C_H_RESIZE]) cls.push_back("resize-drained");
      if (o.cls[C_H_WAIT]) cls.push_back("waiter-stole");
      if (o.cls[C_H_INLINE] + o.cls[C_WORKER_INLINE]) cls.push_back("inline");
      if (s.mode) cls.push_back("poll");
      if (o.drift != 0) cls.push_back("drift-seen");
      vrt::caseEnd(o.json(), (o.acctChecked && o.quiescent && o.idleSeen && o.ids >= 2) ? spec.str() : "", cls);
    } else {
      static const int kinds[] = {SK_RINGBULK_AFTER_JOIN, SK_RINGBULK_AFTER_STOP, SK_PLACED_AFTER_STOP};
      ScriptSpec sp = genScript(r, kinds[r.below(3)]);
      sp.checkAccounting = true;
      if (r.chance(0.5)) sp.mult = 1;
      std::string key = scriptKey(sp);
      J spec = sp.json();
      vrt::caseBegin(idx, key, spec);
      vrt::watchdogArm();
      ScriptObs so = runScript(sp);
      vrt::watchdogDisarm();
      if (!so.reached) vrt::inconclusive(so.why);
      if (so.stranded) vrt::violation("tasks stranded in rings beyond the published ring count after a scripted resize", J().kv("spec", spec), "stranded", "C03");
      accountingVerdict(so.c, spec);
      if (so.c.dup || so.c.lost || so.c.barrierFails) vrt::violation("scripted resize lost / duplicated a task or broke a wait", J().kv("obs", so.c.json()).kv("spec", spec), "count", "C03");
      std::vector<std::string> cls{std::string("script:") + scriptName(sp.kind), std::string("target:") + sp.targetClass()};
      if (so.c.acctChecked && so.c.quiescent && so.c.idleSeen) cls.push_back("accounting-checked");
      if (so.drainedByResize) cls.push_back("resize-drained");
      if (so.c.drift != 0) cls.push_back("drift-seen");
      vrt::caseEnd(J().kv("drainedByResize", so.drainedByResize).kv("obs", so.c.json()), (so.reached && so.c.acctChecked && so.c.idleSeen) ? spec.str() : "", cls);
    }
  }
}
