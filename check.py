#!/usr/bin/env python3
"""Driver: build -> run -> collect -> decide -> evidence.

  check.py <Cxx> [--tier quick|thorough]     decide one property (tier also from VERIF_TIER)
  check.py setup                             build every (engine, config) pair the registry uses
  check.py replay <replay.json>              re-run exactly one recorded case
  check.py list                              print the registry

Exit codes: 0 the property held on everything explored (KNOWN-FINDING lines may be printed);
1 a violation that known_findings.json does not list (VIOLATION line printed); 2 harness failure.
"""
import fnmatch
import glob
import hashlib
import importlib.util
import json
import os
import shutil
import sys
import tempfile
import time

HERE = os.path.dirname(os.path.abspath(__file__))
sys.path.insert(0, HERE)
from vlib import build as vbuild  # noqa: E402
from vlib import run as vrun  # noqa: E402


def load_registry():
    props, engines = {}, {}
    for path in sorted(glob.glob(os.path.join(HERE, "engines", "*.py"))):
        name = os.path.basename(path)[:-3]
        if name.startswith("_"):
            continue
        spec = importlib.util.spec_from_file_location("engines." + name, path)
        mod = importlib.util.module_from_spec(spec)
        spec.loader.exec_module(mod)
        eng = getattr(mod, "ENGINE")
        engines[eng["name"]] = eng
        for pid, p in getattr(mod, "PROPS").items():
            p = dict(p)
            p.setdefault("engine", eng["name"])
            props[pid] = p
    return props, engines


def load_known():
    path = os.path.join(HERE, "known_findings.json")
    if not os.path.exists(path):
        return []
    with open(path) as f:
        return json.load(f).get("findings", [])


def match_known(known, prop, key):
    for k in known:
        if k.get("property") != prop or k.get("status") != "known":
            continue
        pats = k.get("key")
        if isinstance(pats, str):
            pats = [pats]
        for pat in pats:
            if fnmatch.fnmatchcase(key, pat):
                return k
    return None


def outdir_for(prop, tier):
    base = os.path.join(HERE, "_out", "%s-%s-%d" % (prop, tier, os.getpid()))
    if os.path.exists(base):
        shutil.rmtree(base)
    os.makedirs(base)
    return base


def decide(prop_id, tier, seed, registry=None, keep_out=False):
    props, engines = registry or load_registry()
    if prop_id not in props:
        print("unknown or unclaimed property %s" % prop_id)
        return 2
    P = props[prop_id]
    t0 = time.time()
    odir = outdir_for(prop_id, tier)
    jobs = []
    meta = []
    max_procs = int(os.environ.get("VERIF_JOBS", "16"))
    # plan: list of (engine, prop argument given to the harness, run dict)
    plan = []
    sweep = P.get("sweep")
    if sweep:
        cp = os.path.join(HERE, "tools", "claimed.json")
        claimed = set(json.load(open(cp))) if os.path.exists(cp) else set(props)
        for q in sorted(props):
            Q = props[q]
            if q == prop_id or Q.get("sweep") or q not in claimed or q in sweep.get("exclude", []):
                continue
            if Q.get("sweep_skip"):
                continue
            qruns = Q["runs"].get("quick") or [{}]
            for cfg in sweep["configs"][tier] if isinstance(sweep["configs"], dict) else sweep["configs"]:
                # budget: the property's own run under this sanitizer if it has one (its counts are
                # tuned for that build), else any sanitizer run, else its first run; explicit
                # sweep_args override
                fam = "tsan" if cfg == "tsan" else "asan"
                base_run = next((r for r in qruns if r.get("config") == cfg), None) or \
                    next((r for r in qruns if r.get("config", "").startswith(fam)), None) or \
                    next((r for r in qruns if r.get("config") in ("tsan", "asan", "asan-nosba")), None) or qruns[0]
                args = dict(base_run.get("args", {}))
                sa = Q.get("sweep_args", {})
                args.update(sa.get(tier, sa.get("quick", {})) if isinstance(sa.get("quick"), dict) else sa)
                plan.append((Q["engine"], q, {"config": cfg, "shards": sweep.get("shards", 4), "seeds": sweep.get("seeds", {}).get(tier, 1),
                                              "run_shards": sweep.get("run_shards", {}).get(tier),
                                              "args": args, "lite": True, "timeout": sweep.get("timeout", 1800)}))
    else:
        for r in (P["runs"].get(tier) or P["runs"]["quick"]):
            plan.append((P["engine"], prop_id, r))
    # development aids (never used by the registered commands): restrict configs / override args
    if os.environ.get("VERIF_ONLY_CONFIG"):
        plan = [x for x in plan if x[2]["config"] in os.environ["VERIF_ONLY_CONFIG"].split(",")]
    if os.environ.get("VERIF_EXTRA_ARGS"):
        extra = dict(kv.split("=", 1) for kv in os.environ["VERIF_EXTRA_ARGS"].split(","))
        plan = [(a, b, dict(r, args=dict(r.get("args", {}), **extra))) for (a, b, r) in plan]
    try:
        for ri, (eng_name, harness_prop, r) in enumerate(plan):
            E = engines[eng_name]
            exe = vbuild.build(eng_name, r["config"], E.get("std", "c++14"), tuple(E.get("extra_flags", ())))
            nseeds = int(r.get("seeds", 1))
            shards = int(r.get("shards", 8))
            for si in range(nseeds):
                s = seed + si * 1000003
                # a sweep's quick tier may run only the first k of n shards (a k/n sample of every case set)
                for sh in range(min(shards, int(r.get("run_shards") or shards))):
                    base = ["--prop", harness_prop, "--tier", "quick" if sweep else tier, "--seed", str(s), "--config", r["config"],
                            "--shard", "%d/%d" % (sh, shards)]
                    if r.get("lite"):
                        base.append("--lite")
                    for k, v in sorted(r.get("args", {}).items()):
                        base += ["--" + k, str(v)]
                    tag = "r%d.s%d.sh%d" % (ri, si, sh)
                    timeout_s = int(os.environ.get("VERIF_PROC_TIMEOUT", r.get("timeout", 1200 if tier == "quick" else 7200)))
                    m = {"run": ri, "config": r["config"], "seed": s, "shard": "%d/%d" % (sh, shards), "exe": exe,
                         "base": base, "env": r.get("env", {}), "engine": eng_name, "harness_prop": harness_prop}
                    meta.append(m)
                    jobs.append((lambda exe=exe, base=base, cfg=r["config"], tag=tag, to=timeout_s, env=r.get("env"), hp=harness_prop:
                                 vrun.run_shard(exe, base, cfg, hp, odir, tag, to, env)))
    except RuntimeError as e:
        print("HARNESS-FAILURE property=%s build: %s" % (prop_id, e))
        return 2
    results = vrun.run_many(jobs, max_procs)

    known = load_known()
    evaluations = 0
    nt_inner = 0
    nt_sigs = set()
    classes = {}
    samples = []
    hooks = {}
    violations = []
    inconcl = []
    failures = []
    san_reports = 0
    procs = 0
    other_prop = 0
    per_config = {}
    for m, res in zip(meta, results):
        procs += res.procs
        san_reports += res.san_reports
        failures += res.proc_failures
        vrun._merge_hooks(hooks, res.hooks)
        pc = per_config.setdefault(m["config"], {"cases": 0, "violations": 0})
        for idx, c in sorted(res.cases.items()):
            pc["cases"] += 1
            e = c["end"]
            st = (e or {}).get("stats") or {}
            # a case may stand for a block of inner evaluations it counted itself
            evaluations += int(st.get("_evals", 1))
            if e:
                if "_nt" in st:
                    nt_inner += int(st["_nt"])
                elif e.get("nt"):
                    nt_sigs.add(e["nt"])
                for cl in e.get("cls", []):
                    classes[cl] = classes.get(cl, 0) + 1
                if len(samples) < 6 and e.get("nt") and (len(samples) == 0 or c["begin"]["key"] != samples[-1]["key"]):
                    samples.append({"case": idx, "key": c["begin"]["key"], "config": m["config"], "seed": m["seed"],
                                    "spec": c["begin"].get("spec"), "stats": e.get("stats")})
        for v in res.violations:
            if sweep:
                # only sanitizer reports of the sweep's tools count; everything else is by-catch that
                # belongs to the property whose cases are being re-run
                tool = (v.get("key", "").split("#")[-1].split(":")[0]) if v.get("source") == "sanitizer" else None
                if tool not in sweep["tools"]:
                    other_prop += 1
                    continue
                kinds = sweep.get("kinds")
                if kinds and not any(k in (v.get("detail", {}).get("kind") or "") for k in kinds):
                    other_prop += 1
                    continue
                v = dict(v)
                v["prop"] = prop_id
                v["key"] = "%s:%s" % (m["harness_prop"], v["key"])
            elif v.get("prop", prop_id) != prop_id:
                other_prop += 1
                continue
            v = dict(v)
            v["_meta"] = m
            violations.append(v)
            pc["violations"] += 1
        for i in res.inconclusive:
            inconcl.append({"case": i.get("case"), "key": i.get("key"), "why": i.get("why") or i.get("kind"), "config": m["config"]})

    # group violations by key, match against known findings
    groups = {}
    for v in violations:
        groups.setdefault(v["key"], []).append(v)
    unlisted, listed = [], {}
    for key, vs in sorted(groups.items()):
        k = match_known(known, prop_id, key)
        if k:
            ent = listed.setdefault(k.get("id") or k.get("what"), {"finding": k, "keys": {}, "count": 0})
            ent["keys"][key] = len(vs)
            ent["count"] += len(vs)
        else:
            unlisted.append((key, vs))

    rdir = os.path.join(HERE, "_out", "replays")
    os.makedirs(rdir, exist_ok=True)
    replay_paths = []
    for key, vs in unlisted:
        v = vs[0]
        m = v["_meta"]
        rp = os.path.join(rdir, "%s-%s.json" % (prop_id, hashlib.sha256(key.encode()).hexdigest()[:10]))
        with open(rp, "w") as f:
            json.dump({"property": prop_id, "key": key, "engine": m["engine"], "harness_prop": m["harness_prop"], "config": m["config"], "tier": tier,
                       "seed": m["seed"], "case": v.get("case"), "base_args": m["base"], "env": m["env"],
                       "msg": v.get("msg"), "detail": v.get("detail"), "source": v.get("source"), "count": len(vs)}, f, indent=1)
        replay_paths.append((key, rp, v))

    missing = [c for c in P.get("required_classes", []) if classes.get(c, 0) == 0]
    wall = time.time() - t0
    cov = {
        "evaluations": evaluations,
        "distinct_nontrivial": len(nt_sigs) + nt_inner,
        "rule": P.get("rule", ""),
        "samples": samples,
        "classes_reached": classes,
        "required_classes_missing": missing,
        "inconclusive": inconcl[:50],
        "inconclusive_count": len(inconcl),
        "hook_sites": hooks,
        "sanitizer_report_blocks": san_reports,
        "processes": procs,
        "per_config": per_config,
        "configs": sorted(set(m["config"] for m in meta)),
        "seeds": sorted(set(m["seed"] for m in meta)),
        "known_findings_seen": [{"id": n, "what": e["finding"].get("what"), "count": e["count"], "keys": e["keys"]} for n, e in listed.items()],
        "unlisted_violation_keys": [k for k, _ in unlisted],
        "events_for_other_properties": other_prop,
        "harness_failures": failures[:10],
        "exhaustive": bool(P.get("exhaustive", {}).get(tier, False)) if isinstance(P.get("exhaustive"), dict) else False,
    }
    ev = {
        "property_id": prop_id, "tier": tier, "seed": seed, "level": P.get("level", "exploration"),
        "coverage": cov, "assumptions": P.get("assumptions", []), "wall_s": round(wall, 2),
        "violations": len(unlisted),
    }
    # runs against a scratch copy of the repository (mutant validation) must not overwrite evidence
    evdir = os.path.join(HERE, "evidence")
    if os.environ.get("VERIF_REPO", "/repo") != "/repo" or os.environ.get("VERIF_ONLY_CONFIG") or os.environ.get("VERIF_EXTRA_ARGS"):
        evdir = os.path.join(HERE, "_out", "evidence_dev")
    os.makedirs(evdir, exist_ok=True)
    with open(os.path.join(evdir, prop_id + ".json"), "w") as f:
        json.dump(ev, f, indent=1, sort_keys=True)
        f.write("\n")

    print("property=%s tier=%s seed=%d cases=%d distinct_nontrivial=%d processes=%d sanitizer_blocks=%d wall=%.1fs" % (
        prop_id, tier, seed, evaluations, len(nt_sigs) + nt_inner, procs, san_reports, wall))
    if classes:
        print("classes: " + ", ".join("%s=%d" % kv for kv in sorted(classes.items())))
    if missing:
        print("INCONCLUSIVE-CLASSES property=%s missing=%s" % (prop_id, ",".join(missing)))
    if inconcl:
        print("INCONCLUSIVE property=%s cases=%d (e.g. %s)" % (prop_id, len(inconcl), inconcl[0]))
    for n, e in sorted(listed.items()):
        print("KNOWN-FINDING: property=%s %s [%d occurrence(s), keys: %s]" % (
            prop_id, e["finding"].get("what"), e["count"], ", ".join(sorted(e["keys"])[:4])))
    for key, rp, v in replay_paths:
        print("VIOLATION property=%s replay=%s" % (prop_id, rp))
        print("  key=%s source=%s msg=%s" % (key, v.get("source"), (v.get("msg") or "")[:300]))
    rc = 0
    if unlisted:
        rc = 1
    elif failures or evaluations == 0 or len(nt_sigs) + nt_inner < 2:
        for fl in failures[:5]:
            print("HARNESS-FAILURE property=%s %s" % (prop_id, fl[:1000]))
        if evaluations == 0 or len(nt_sigs) + nt_inner < 2:
            print("HARNESS-FAILURE property=%s observed too little (cases=%d, distinct nontrivial=%d)" % (prop_id, evaluations, len(nt_sigs) + nt_inner))
        rc = 2
    if not keep_out and rc == 0 and not os.environ.get("VERIF_KEEP_OUT"):
        shutil.rmtree(odir, ignore_errors=True)
    else:
        print("raw output kept in %s" % odir)
    return rc


def cmd_setup():
    props, engines = load_registry()
    cp = os.path.join(HERE, "tools", "claimed.json")
    if os.path.exists(cp):
        claimed = set(json.load(open(cp)))
        props = {k: v for k, v in props.items() if k in claimed}
    pairs = set()
    for pid, P in props.items():
        for tier, runs in P["runs"].items():
            for r in runs:
                if r["config"] == "cov":
                    continue
                pairs.add((P["engine"], r["config"]))
    ok = True
    for eng, cfg in sorted(pairs):
        t0 = time.time()
        try:
            E = engines[eng]
            vbuild.build(eng, cfg, E.get("std", "c++14"), tuple(E.get("extra_flags", ())))
            print("built %s/%s in %.1fs" % (eng, cfg, time.time() - t0))
        except RuntimeError:
            ok = False
            print("FAILED %s/%s" % (eng, cfg))
    return 0 if ok else 2


def cmd_replay(path):
    with open(path) as f:
        rp = json.load(f)
    props, engines = load_registry()
    E = engines[rp["engine"]]
    exe = vbuild.build(rp["engine"], rp["config"], E.get("std", "c++14"), tuple(E.get("extra_flags", ())))
    odir = outdir_for(rp["property"], "replay")
    hp = rp.get("harness_prop", rp["property"])
    res = vrun.run_shard(exe, rp["base_args"], rp["config"], hp, odir, "replay", 1800, rp.get("env"), only=rp["case"])
    hit = [v for v in res.violations if v.get("prop", hp) == hp]
    for v in hit:
        print("reproduced: key=%s msg=%s" % (v["key"], (v.get("msg") or "")[:400]))
    if not hit:
        print("not reproduced in this run (cases run: %d); schedule-dependent findings may need repeats" % len(res.cases))
    print("raw output in %s" % odir)
    return 1 if hit else 0


def main(argv):
    if len(argv) < 2:
        print(__doc__)
        return 2
    cmd = argv[1]
    if cmd == "setup":
        return cmd_setup()
    if cmd == "list":
        props, engines = load_registry()
        for pid in sorted(props):
            print(pid, props[pid]["engine"], [r["config"] for r in props[pid]["runs"]["quick"]])
        return 0
    if cmd == "replay":
        return cmd_replay(argv[2])
    tier = os.environ.get("VERIF_TIER", "quick")
    if "--tier" in argv:
        tier = argv[argv.index("--tier") + 1]
    seed = int(os.environ.get("VERIF_SEED", "1"))
    return decide(cmd, tier, seed, keep_out="--keep" in argv)


if __name__ == "__main__":
    sys.exit(main(sys.argv))
