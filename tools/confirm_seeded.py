#!/usr/bin/env python3
"""Confirms a seeded change in a scratch git worktree of /repo (outside /repo and /verif):
  1. demo passes on the unchanged tree, 2. patch applies, 3. demo fails with the patch,
  4. the repository's own test suite still builds and passes with the patch (known environmental /
     timing-flaky tests excepted, and only if they also fail or are flaky on the unchanged tree).
Writes seeded/<id>/meta.json and removes the worktree (and its build output) afterwards.

usage: confirm_seeded.py <seeded-id> <property> [--no-suite]
"""
import json
import os
import re
import shutil
import subprocess
import sys
import time

HERE = os.path.dirname(os.path.dirname(os.path.abspath(__file__)))
ALLOW = re.compile(r"^(TimedTaskTest\..*|Priorty\.PriorityGetsCycles|CpuSet\.L[23]GroupsAreNonEmpty|Timing\..*)$")


def sh(cmd, cwd=None, timeout=3600):
    p = subprocess.run(cmd, shell=True, cwd=cwd, stdout=subprocess.PIPE, stderr=subprocess.STDOUT, text=True, timeout=timeout)
    return p.returncode, p.stdout


def main():
    sid, prop = sys.argv[1], sys.argv[2]
    suite = "--no-suite" not in sys.argv
    mp0 = os.path.join(HERE, "seeded", sid, "meta.json")
    prev = json.load(open(mp0)) if os.path.exists(mp0) else {}
    if "--reuse-suite" in sys.argv and prev.get("suite") and prev.get("suite_builds"):
        suite = False
    sdir = os.path.join(HERE, "seeded", sid)
    wt = "/tmp/seedwt_%s" % sid
    sh("git -C /repo worktree remove --force %s" % wt)
    shutil.rmtree(wt, ignore_errors=True)
    base = sys.argv[sys.argv.index("--base") + 1] if "--base" in sys.argv else "HEAD"
    rc, out = sh("git -C /repo worktree add --detach %s %s" % (wt, base))
    assert rc == 0, out
    meta = {"id": sid, "property": prop, "repo_head": sh("git -C /repo rev-parse --short %s" % base)[1].strip(), "confirmed_at": time.strftime("%Y-%m-%dT%H:%M:%SZ", time.gmtime())}
    try:
        # agents' run.sh scripts expect their original directory name (mutant1, mutant2, ...)
        mm = re.search(r"-m(\d+)$", sid)
        mname = "mutant" + (mm.group(1) if mm else "")
        mdir = os.path.join(wt, mname)
        shutil.copytree(sdir, mdir)
        jobs = os.environ.get("VERIF_JOBS", "8")
        rc0, out0 = sh("bash %s/run.sh" % mname, cwd=wt, timeout=1800)
        meta["demo_unchanged"] = {"rc": rc0, "tail": out0[-600:]}
        rc, out = sh("git apply --check %s/patch.diff && git apply %s/patch.diff" % (mname, mname), cwd=wt)
        if rc != 0:
            rc, out = sh("git apply --3way %s/patch.diff" % mname, cwd=wt)
        meta["patch_applies"] = rc == 0
        if rc != 0:
            meta["patch_error"] = out[-800:]
            return meta
        rc1, out1 = sh("bash %s/run.sh" % mname, cwd=wt, timeout=1800)
        meta["demo_with_patch"] = {"rc": rc1, "tail": out1[-800:]}
        if suite:
            cfg = ("cmake -G Ninja -S . -B _build -DCMAKE_BUILD_TYPE=RelWithDebInfo -DDISPENSO_BUILD_TESTS=ON -DCMAKE_CXX_FLAGS=-Wno-error "
                   "-DFETCHCONTENT_SOURCE_DIR_GOOGLETEST=/usr/src/googletest -DFETCHCONTENT_TRY_FIND_PACKAGE_MODE=ALWAYS -DFETCHCONTENT_UPDATES_DISCONNECTED=ON")
            rc, out = sh(cfg + " > cmake.log 2>&1 && cmake --build _build -j%s > build.log 2>&1" % jobs, cwd=wt, timeout=7200)
            meta["suite_builds"] = rc == 0
            if rc == 0:
                rc, out = sh("ctest --test-dir _build -j%s --timeout 900 2>&1 | tail -60" % jobs, cwd=wt, timeout=7200)
                failed = re.findall(r"^\s*\d+ - (\S+) \((?:Failed|Timeout|SEGFAULT|Subprocess aborted|ILLEGAL|Exception[^)]*)\)", out, re.M)
                m = re.search(r"(\d+)% tests passed, (\d+) tests failed out of (\d+)", out)
                unexpected = [f for f in failed if not ALLOW.match(f)]
                meta["suite"] = {"summary": m.group(0) if m else out[-300:], "failed": failed, "unexpected_failures": unexpected}
        if not suite and prev.get("suite"):
            meta["suite_builds"] = prev.get("suite_builds")
            meta["suite"] = prev["suite"]
        suite_ok = bool(meta.get("suite_builds") and not meta.get("suite", {}).get("unexpected_failures", ["?"]))
        meta["confirmed"] = bool(rc0 == 0 and meta["patch_applies"] and rc1 != 0 and suite_ok)
        return meta
    finally:
        # merge into meta.json (keeps hand-written fields)
        mp = os.path.join(sdir, "meta.json")
        old = json.load(open(mp)) if os.path.exists(mp) else {}
        old.update(meta)
        with open(mp, "w") as f:
            json.dump(old, f, indent=1)
            f.write("\n")
        sh("git -C /repo worktree remove --force %s" % wt)
        shutil.rmtree(wt, ignore_errors=True)
        print(json.dumps({k: meta.get(k) for k in ("id", "patch_applies", "confirmed")}, indent=None),
              "demo unchanged rc=%s, with patch rc=%s" % (meta.get("demo_unchanged", {}).get("rc"), meta.get("demo_with_patch", {}).get("rc")),
              meta.get("suite", {}).get("summary"), meta.get("suite", {}).get("unexpected_failures"))


if __name__ == "__main__":
    main()
