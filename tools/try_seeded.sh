#!/bin/bash
# usage: tools/try_seeded.sh <seeded-id> <property> [config|all]
# Runs the registered quick check of <property> against a scratch copy of /repo (outside /repo and
# /verif) with seeded/<id>/patch.diff applied. Nothing is applied to /repo. Dev evidence goes to
# _out/evidence_dev. Appends "<id> rc=<rc>" to _out/mut_summary.txt and removes the copy.
set -u
sid=$1; prop=$2; cfg=${3:-plain}
here=$(cd "$(dirname "$0")/.." && pwd)
d=/tmp/mtest/$sid
rm -rf "$d"; mkdir -p "$d/repo"
cp -r /repo/dispenso "$d/repo/dispenso"
(cd "$d/repo" && git init -q . && git apply "$here/seeded/$sid/patch.diff") || { echo "$sid patch does not apply" >> "$here/_out/mut_summary.txt"; exit 2; }
export VERIF_REPO=$d/repo VERIF_BUILD_TAG=lead VERIF_NO_PRUNE=1 VERIF_JOBS=${VERIF_JOBS:-6}
[ "$cfg" != all ] && export VERIF_ONLY_CONFIG=$cfg
cd "$here"
timeout 3600 python3 check.py "$prop" > "_out/mut_${sid}.txt" 2>&1
rc=$?
echo "$sid ($prop, $cfg) rc=$rc" >> _out/mut_summary.txt
[ -z "${KEEP:-}" ] && rm -rf "$d"
exit 0
