#!/usr/bin/env python3
"""Smoke test of every property's thorough tier: runs a 1/3000 slice of each thorough run's case set
(plain or the run's own config) and checks that the harness enumerates and completes cases."""
import json, os, subprocess, sys, tempfile
HERE = os.path.dirname(os.path.dirname(os.path.abspath(__file__)))
sys.path.insert(0, HERE)
import check
from vlib import build as vbuild
from vlib import run as vrun
props, engines = check.load_registry()
bad = 0
for pid in sorted(props):
    P = props[pid]
    if P.get("sweep"):
        continue
    for r in P["runs"].get("thorough", [])[:1]:
        E = engines[P["engine"]]
        exe = vbuild.build(P["engine"], r["config"], E.get("std", "c++14"), tuple(E.get("extra_flags", ())))
        out = tempfile.mktemp(suffix=".jsonl")
        args = [exe, "--prop", pid, "--tier", "thorough", "--seed", "1", "--config", r["config"], "--shard", "7/3000", "--out", out]
        for k, v in sorted(r.get("args", {}).items()):
            args += ["--" + k, str(v)]
        env = dict(os.environ); env.update(vrun.SAN_ENV.get(r["config"], {}))
        try:
            p = subprocess.run(args, stdout=subprocess.PIPE, stderr=subprocess.PIPE, env=env, timeout=600)
            rc = p.returncode
        except subprocess.TimeoutExpired:
            rc = "timeout"
        n = sum(1 for l in open(out) if '"case_end"' in l) if os.path.exists(out) else 0
        v = sum(1 for l in open(out) if '"ev":"violation"' in l) if os.path.exists(out) else 0
        print(pid, r["config"], "rc=%s cases=%d violations=%d" % (rc, n, v), flush=True)
        if rc != 0 or n == 0:
            bad += 1
        if os.path.exists(out):
            os.remove(out)
print("BAD", bad)
