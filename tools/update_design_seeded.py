#!/usr/bin/env python3
"""Replaces the table of DESIGN.md section 12 with the one generated from seeded/*/meta.json and prints
the counts used in the summary paragraph."""
import collections, glob, json, os, subprocess, sys
HERE = os.path.dirname(os.path.dirname(os.path.abspath(__file__)))
table = subprocess.check_output([sys.executable, os.path.join(HERE, "tools", "seeded_table.py")], text=True).rstrip("\n").split("\n")
p = os.path.join(HERE, "DESIGN.md")
lines = open(p).read().split("\n")
start = next(i for i, l in enumerate(lines) if l.startswith("| id | property | change |"))
end = next(i for i in range(start, len(lines)) if not lines[i].startswith("|"))
lines[start:end] = table
open(p, "w").write("\n".join(lines))
c = collections.Counter()
props = set()
for mp in glob.glob(os.path.join(HERE, "seeded", "*", "meta.json")):
    m = json.load(open(mp))
    props.add(m["property"])
    c[m.get("detection", {}).get("status", "pending")] += 1
    if not m.get("confirmed"):
        c["unconfirmed"] += 1
print(len(table) - 2, "seeded changes over", len(props), "properties;", dict(c))
