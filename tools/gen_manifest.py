#!/usr/bin/env python3
"""Regenerates /verif/MANIFEST.json from the engine registry (engines/*.py) and the not-applicable list
(tools/not_applicable.json). Run after adding or changing an engine."""
import json
import os
import subprocess
import sys

HERE = os.path.dirname(os.path.dirname(os.path.abspath(__file__)))
sys.path.insert(0, HERE)
import check  # noqa: E402


def main():
    props, engines = check.load_registry()
    # only properties whose check has been validated on the unchanged tree are claimed
    claimed_path = os.path.join(HERE, "tools", "claimed.json")
    claimed = set(json.load(open(claimed_path))) if os.path.exists(claimed_path) else set(props)
    props = {k: v for k, v in props.items() if k in claimed}
    all_ids = [json.loads(l)["id"] for l in open(os.path.join(HERE, "properties.jsonl"))]
    na_path = os.path.join(HERE, "tools", "not_applicable.json")
    na = json.load(open(na_path)) if os.path.exists(na_path) else {}
    try:
        log = subprocess.run(["git", "-C", "/repo", "log", "--format=%h %s"], capture_output=True, text=True).stdout.splitlines()
    except OSError:
        log = []
    hook_commits = [l.split()[0] for l in log if " verif:" in " " + l]
    checks = []
    for pid in all_ids:
        if pid not in props:
            continue
        P = props[pid]
        c = {
            "property_id": pid,
            "quick_cmd": "python3 check.py %s --tier quick" % pid,
            "thorough_cmd": "python3 check.py %s --tier thorough" % pid,
            "evidence_file": "evidence/%s.json" % pid,
            "replay_cmd_template": "python3 check.py replay {path}",
            "engine": P["engine"],
            "level_claimed": {"category": P.get("level", "exploration"), "text": P["level_text"], "design_ref": P.get("design_ref", "DESIGN.md §4")},
            "level_note": P["level_note"],
            "technique": P["technique"],
        }
        checks.append(c)
    not_app = []
    for pid in all_ids:
        if pid not in props:
            not_app.append({"property_id": pid, "reason": na.get(pid, "no check has been built for this property yet (not claimed)")})
    man = {
        "version": 1,
        "setup_cmd": "python3 check.py setup",
        "hooks": {
            "guard": "DISPENSO_VERIF",
            "enable": "checks compile /repo/dispenso/*.cpp and detail/*.cpp directly with g++ -DDISPENSO_VERIF (vlib/build.py); the define turns DISPENSO_VERIF_POINT(site) into a call to dispenso_verif_point() supplied by rt/verif_rt.cpp and exposes read-only accessors (ThreadPool::verifWorkRemaining etc.)",
            "baseline_off_cmd": "cmake --build /repo/_build -j16 && ctest --test-dir /repo/_build -j8 --timeout 900",
            "source_commits": hook_commits,
            "add_only": True,
        },
        "engines": [{"name": e["name"], "path": e.get("path", "harness/%s.cpp" % e["name"]),
                     "serves_properties": sorted(p for p in props if props[p]["engine"] == e["name"]),
                     "kind_free_text": e.get("kind", "")} for e in sorted(engines.values(), key=lambda e: e["name"])],
        "checks": checks,
        "not_applicable": not_app,
        "notes": "All checks are runtime monitoring / sanitizer checks over executions of the real code built from /repo's working tree; verdicts are 'held on what was observed'. Known genuine defects are listed in known_findings.json (KNOWN-FINDING lines, exit 0); fix: commits in /repo are recorded there as status=fixed.",
    }
    with open(os.path.join(HERE, "MANIFEST.json"), "w") as f:
        json.dump(man, f, indent=1)
        f.write("\n")
    print("MANIFEST.json: %d checks, %d not_applicable" % (len(checks), len(not_app)))


if __name__ == "__main__":
    main()
