#!/bin/bash
# Runs every claimed property's quick check once on the real tree (evidence is rewritten by each).
cd "$(dirname "$0")/.."
out=_out/all_quick_$(date +%H%M).txt
: > $out
for p in $(python3 -c "import json;print(' '.join(json.load(open('tools/claimed.json'))))"); do
  s=$(date +%s)
  python3 check.py $p --tier quick > _out/final_$p.txt 2>&1
  rc=$?
  e=$(date +%s)
  echo "$p rc=$rc wall=$((e-s))s $(grep -c '^KNOWN-FINDING' _out/final_$p.txt) known $(grep -c '^INCONCLUSIVE' _out/final_$p.txt) inconcl" >> $out
done
echo ALLDONE >> $out
