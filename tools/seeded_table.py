#!/usr/bin/env python3
"""Prints the markdown table of seeded changes (seeded/*/meta.json) for DESIGN.md section 12."""
import glob, json, os
HERE = os.path.dirname(os.path.dirname(os.path.abspath(__file__)))
rows = []
for mp in sorted(glob.glob(os.path.join(HERE, "seeded", "*", "meta.json"))):
    m = json.load(open(mp))
    det = m.get("detection", {})
    rows.append("| %s | %s | %s | %s | %s | %s |" % (
        m["id"], m["property"], m.get("change", "").replace("|", "/"), m.get("needs_to_manifest", "").replace("|", "/"),
        "yes" if m.get("confirmed") else ("pending" if "confirmed" not in m else "NO"),
        (det.get("status", "pending") + (": " + det.get("by", "") if det.get("by") else "") + ((" — " + det["note"]) if det.get("note") else "")).replace("|", "/")))
print("| id | property | change | needs in order to manifest | confirmed by me (demo fails/passes, suite passes) | caught by |")
print("|---|---|---|---|---|---|")
print("\n".join(rows))
