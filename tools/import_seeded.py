#!/usr/bin/env python3
"""usage: import_seeded.py <src-dir> <seeded-id> <property> <change> <needs>  -- copies a sub-agent's
deliverables into seeded/<id>/ and writes the initial meta.json."""
import json, os, shutil, sys
HERE = os.path.dirname(os.path.dirname(os.path.abspath(__file__)))
src, sid, prop, change, needs = sys.argv[1:6]
dst = os.path.join(HERE, "seeded", sid)
os.makedirs(dst, exist_ok=True)
for f in os.listdir(src):
    p = os.path.join(src, f)
    if os.path.isfile(p) and os.path.getsize(p) < 400000:
        shutil.copy(p, os.path.join(dst, f))
json.dump({"id": sid, "property": prop, "change": change, "needs_to_manifest": needs}, open(os.path.join(dst, "meta.json"), "w"), indent=1)
print(sorted(os.listdir(dst)))
