"""Parser for sanitizer / assertion output in a harness's stderr. The harness prints
'@@VRT case_begin <idx> <key>' and '@@VRT case_end <idx>' markers to stderr, so every report block
can be attributed to the case that was open when it was printed."""
import re

_FRAME = re.compile(r"^\s+#(\d+)\s+(?:0x[0-9a-f]+\s+)?(?:in\s+)?(.*?)\s+(/\S+?):(\d+)(?::\d+)?(?:\s+\(.*\))?\s*$")
_FRAME_NOSRC = re.compile(r"^\s+#(\d+)\s+(?:0x[0-9a-f]+\s+)?(?:in\s+)?(.*?)\s+\((\S+)\+0x[0-9a-f]+\)")
_TSAN = re.compile(r"^WARNING: ThreadSanitizer: (.+?) \(pid=\d+\)")
_ASAN = re.compile(r"^==\d+==\s*ERROR: (AddressSanitizer|LeakSanitizer): (.+)$")
_ASAN2 = re.compile(r"^(AddressSanitizer|LeakSanitizer):(DEADLYSIGNAL)")
_UBSAN = re.compile(r"^(\S+?):(\d+):(\d+): runtime error: (.+)$")
_ASSERT = re.compile(r"^(\S+): (\S+?):(\d+): (.+): Assertion `(.+)' failed\.$")
_MARK_B = re.compile(r"^@@VRT case_begin (-?\d+) (.*)$")
_MARK_E = re.compile(r"^@@VRT case_end (-?\d+)")


def _simplify(fn):
    fn = fn.strip()
    fn = re.sub(r"\(anonymous namespace\)::", "", fn)
    # drop template arguments and parameter lists
    out = []
    depth = 0
    for ch in fn:
        if ch == "<":
            depth += 1
        elif ch == ">":
            depth = max(0, depth - 1)
        elif depth == 0:
            out.append(ch)
    fn = "".join(out)
    fn = fn.split("(")[0].strip()
    fn = re.sub(r"^(void|bool|int|auto|unsigned long|long)\s+", "", fn)
    fn = fn.replace("operator", "op")
    fn = re.sub(r"\s+", "", fn)
    return fn[-70:] if fn else "?"


def _stacks(lines):
    """Splits a report's lines into stacks (lists of (func, path, line))."""
    stacks, cur = [], []
    for ln in lines:
        m = _FRAME.match(ln)
        if m:
            cur.append((_simplify(m.group(2)), m.group(3), int(m.group(4))))
            continue
        m = _FRAME_NOSRC.match(ln)
        if m:
            cur.append((_simplify(m.group(2)), m.group(3), 0))
            continue
        if cur:
            stacks.append(cur)
            cur = []
    if cur:
        stacks.append(cur)
    return stacks


def _name(frame):
    fn, path, _ = frame
    base = path.split("/")[-1]
    # lambdas / call operators carry no information in their name: use the file they live in
    if fn in ("op", "?", "") or fn.startswith("op") and not fn[2:3].isalnum() or fn.startswith("<lambda"):
        return "lambda@" + base
    return fn


def _top_dispenso(stack):
    own = [f for f in stack if "/dispenso/" in f[1] and "third-party" not in f[1]]
    if own:
        return _name(own[0])
    tp = [f for f in stack if "/dispenso/" in f[1]]
    if tp:
        return _name(tp[0])
    return None


def _mk(tool, kind, title, lines, case_idx, case_key):
    stacks = _stacks(lines)
    in_disp = any(_top_dispenso(s) for s in stacks)
    kindslug = re.sub(r"[^a-z0-9]+", "-", kind.lower()).strip("-")[:40]
    if tool == "tsan":
        tops = []
        for s in stacks[:2]:
            t = _top_dispenso(s) or (_name(s[0]) if s else "?")
            tops.append(t)
        sig = "%s:%s:%s" % (tool, kindslug, "|".join(sorted(set(tops))))
    else:
        t = None
        for s in stacks[:1]:
            t = _top_dispenso(s) or (_name(s[0]) if s else None)
        sig = "%s:%s:%s" % (tool, kindslug, t or "?")
    return {"tool": tool, "kind": kind, "title": title, "text": "\n".join(lines), "sig": sig,
            "in_dispenso": in_disp, "case_idx": case_idx, "case_key": case_key}


def parse(text):
    reports = []
    cur_idx, cur_key = None, None
    lines = text.split("\n")
    i = 0
    n = len(lines)
    while i < n:
        ln = lines[i]
        m = _MARK_B.match(ln)
        if m:
            cur_idx, cur_key = int(m.group(1)), m.group(2)
            i += 1
            continue
        if _MARK_E.match(ln):
            cur_idx, cur_key = None, None
            i += 1
            continue
        m = _TSAN.match(ln)
        if m:
            j = i + 1
            while j < n and not lines[j].startswith("SUMMARY: ThreadSanitizer") and not _MARK_B.match(lines[j]):
                j += 1
            block = lines[i:j + 1]
            reports.append(_mk("tsan", m.group(1), ln.strip(), block, cur_idx, cur_key))
            i = j + 1
            continue
        m = _ASAN.match(ln) or _ASAN2.match(ln)
        if m:
            j = i + 1
            while j < n and not lines[j].startswith("SUMMARY: AddressSanitizer") and not re.match(r"^==\d+==ABORTING", lines[j]) and not _MARK_B.match(lines[j]):
                j += 1
            block = lines[i:j + 1]
            kind = m.group(2).split(" on ")[0].split(":")[0]
            tool = "lsan" if m.group(1) == "LeakSanitizer" else "asan"
            kind = re.sub(r"0x[0-9a-f]+", "", kind)
            reports.append(_mk(tool, kind, ln.strip()[:200], block, cur_idx, cur_key))
            i = j + 1
            continue
        m = _UBSAN.match(ln)
        if m:
            j = i + 1
            while j < n and (lines[j].startswith("    #") or lines[j].strip() == "") and j - i < 80:
                j += 1
            block = lines[i:j]
            kind = re.sub(r"[-0-9]+(\.[0-9]+)?(e[+-]?\d+)?", "N", m.group(4))[:60]
            r = _mk("ubsan", kind, ln.strip()[:200], block, cur_idx, cur_key)
            if "/dispenso/" in m.group(1):
                r["in_dispenso"] = True
            if r["sig"].endswith(":?"):
                r["sig"] = "ubsan:%s:%s:%s" % (re.sub(r"[^a-z0-9]+", "-", kind.lower())[:40], m.group(1).split("/")[-1], m.group(2))
            reports.append(r)
            i = j
            continue
        m = _ASSERT.match(ln)
        if m:
            r = {"tool": "assert", "kind": "assert", "title": ln.strip()[:200], "text": ln,
                 "sig": "assert:%s:%s" % (m.group(2).split("/")[-1], re.sub(r"\s+", "", m.group(5))[:50]),
                 "in_dispenso": "/dispenso/" in m.group(2), "case_idx": cur_idx, "case_key": cur_key}
            reports.append(r)
            i += 1
            continue
        i += 1
    return reports
