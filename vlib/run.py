"""Process runner: launches harness shards, follows the JSONL case protocol, continues a shard after a
crash / hang / sanitizer abort, and turns everything that went wrong into violation records."""
import json
import os
import re
import subprocess
import tempfile
import time
from concurrent.futures import ThreadPoolExecutor

from . import sanlog

SAN_ENV = {
    "tsan": {"TSAN_OPTIONS": "halt_on_error=0:exitcode=0:report_signal_unsafe=0:history_size=4:second_deadlock_stack=1:report_thread_leaks=0"},
    "asan": {"ASAN_OPTIONS": "abort_on_error=0:exitcode=77:detect_leaks=1:detect_stack_use_after_return=0:allocator_may_return_null=1:quarantine_size_mb=32",
             "UBSAN_OPTIONS": "print_stacktrace=1:halt_on_error=1:exitcode=78",
             "LSAN_OPTIONS": "exitcode=79:report_objects=0"},
    "ubsan": {"UBSAN_OPTIONS": "print_stacktrace=1:halt_on_error=1:exitcode=78"},
}
SAN_ENV["asan-nosba"] = SAN_ENV["asan"]


class ShardResult:
    def __init__(self):
        self.cases = {}        # idx -> dict(begin=..., end=... or None)
        self.violations = []   # dicts: prop,key,msg,detail,case,source
        self.inconclusive = [] # dicts
        self.notes = []
        self.proc_failures = []  # harness failures (no attribution possible)
        self.hooks = {}
        self.san_reports = 0
        self.procs = 0
        self.stderr_tail = ""


def _parse_jsonl(path):
    evs = []
    if not os.path.exists(path):
        return evs
    with open(path, "r", errors="replace") as f:
        for line in f:
            line = line.strip()
            if not line:
                continue
            try:
                evs.append(json.loads(line))
            except ValueError:
                evs.append({"ev": "garbled", "raw": line[:200]})
    return evs


def _merge_hooks(dst, src):
    for k, v in (src or {}).items():
        d = dst.setdefault(k, {"hits": 0, "delays": 0})
        d["hits"] += v.get("hits", 0)
        d["delays"] += v.get("delays", 0)


def run_shard(exe, base_args, config, prop, outdir, tag, timeout_s, env_extra=None, only=None):
    """Runs one shard to completion (restarting after the case in which a process died)."""
    res = ShardResult()
    start_from = 0
    attempt = 0
    retried_inconclusive = set()
    env = dict(os.environ)
    env.update(SAN_ENV.get(config, {}))
    if env_extra:
        env.update(env_extra)
    while True:
        attempt += 1
        if attempt > 200:
            res.proc_failures.append("too many restarts in shard %s" % tag)
            break
        out = os.path.join(outdir, "%s.%d.jsonl" % (tag, attempt))
        err = os.path.join(outdir, "%s.%d.stderr" % (tag, attempt))
        args = [exe] + base_args + ["--out", out]
        if only is not None:
            args += ["--only", str(only)]
        else:
            args += ["--from", str(start_from)]
        t0 = time.time()
        timed_out = False
        with open(err, "wb") as ef:
            p = subprocess.Popen(args, stdout=ef, stderr=ef, env=env)
            try:
                rc = p.wait(timeout=timeout_s)
            except subprocess.TimeoutExpired:
                p.kill()
                p.wait()
                rc = -9
                timed_out = True
        res.procs += 1
        evs = _parse_jsonl(out)
        open_case = None
        got_proc_end = False
        for e in evs:
            ev = e.get("ev")
            if ev == "case_begin":
                open_case = e
                res.cases[e["case"]] = {"begin": e, "end": None}
            elif ev == "case_end":
                c = res.cases.get(e["case"])
                if c is not None:
                    c["end"] = e
                open_case = None
            elif ev == "violation":
                e["source"] = "monitor"
                res.violations.append(e)
            elif ev == "hang":
                res.violations.append({"prop": e.get("prop", prop), "key": e.get("key", "?"), "case": e.get("case"),
                                       "msg": "hang (%s): no progress for %.1fs, cpu %.1fs" % (e.get("kind"), e.get("flat_s", 0), e.get("cpu_s", 0)),
                                       "detail": e, "source": "watchdog"})
            elif ev == "inconclusive":
                res.inconclusive.append(e)
            elif ev == "note":
                res.notes.append(e)
            elif ev == "proc_end":
                got_proc_end = True
                _merge_hooks(res.hooks, e.get("hooks"))
        # sanitizer reports in stderr
        try:
            with open(err, "r", errors="replace") as f:
                errtxt = f.read()
        except OSError:
            errtxt = ""
        reports = sanlog.parse(errtxt)
        res.san_reports += len(reports)
        for r in reports:
            ckey = r.get("case_key") or (open_case["key"] if open_case else "outside-case")
            cidx = r.get("case_idx") if r.get("case_idx") is not None else (open_case["case"] if open_case else -1)
            res.violations.append({"prop": prop, "key": "%s#%s" % (ckey, r["sig"]), "case": cidx,
                                   "msg": r["title"], "detail": {"report": r["text"][:6000], "kind": r["kind"], "in_dispenso": r["in_dispenso"]},
                                   "source": "sanitizer"})
        res.stderr_tail = errtxt[-1500:]
        # attach the thread stacks the runtime dumped for a hang / inconclusive verdict
        if "@@VRT stacks begin" in errtxt:
            stacks = errtxt.split("@@VRT stacks begin", 1)[1].split("@@VRT stacks end", 1)[0][-12000:]
            for v in reversed(res.violations):
                if v.get("source") == "watchdog":
                    v.setdefault("detail", {})["stacks"] = stacks
                    break
            for i in reversed(res.inconclusive):
                i["stacks"] = stacks[-6000:]
                break
        if only is not None:
            if rc not in (0, 3, 4) and not reports and open_case is not None:
                res.violations.append({"prop": prop, "key": open_case["key"], "case": open_case["case"],
                                       "msg": "process died (rc=%s) inside case" % rc, "detail": {"stderr": errtxt[-3000:]}, "source": "crash"})
            break
        if rc == 0 and got_proc_end:
            break
        # process ended early
        if open_case is None:
            if rc == 0:
                break
            if reports:
                # e.g. leak report at exit: already recorded; nothing more to run
                if got_proc_end:
                    break
            res.proc_failures.append("shard %s: rc=%s outside any case%s; stderr tail: %s" % (
                tag, rc, " (driver timeout)" if timed_out else "", errtxt[-800:]))
            break
        idx = open_case["case"]
        if timed_out:
            res.inconclusive.append({"case": idx, "key": open_case["key"], "why": "driver wall-clock timeout %ds" % timeout_s})
        elif rc == 4:
            # in-process watchdog: starved / unknown -> retry that case once in a fresh process
            if idx not in retried_inconclusive:
                retried_inconclusive.add(idx)
                sub = run_shard(exe, base_args, config, prop, outdir, "%s.retry%d" % (tag, idx), timeout_s, env_extra, only=idx)
                res.procs += sub.procs
                res.violations += sub.violations
                res.inconclusive += sub.inconclusive
                for k, v in sub.cases.items():
                    res.cases[k] = v
        elif rc == 3:
            pass  # hang record already turned into a violation
        elif not reports:
            res.violations.append({"prop": prop, "key": open_case["key"], "case": idx,
                                   "msg": "process died (rc=%s) inside case" % rc,
                                   "detail": {"stderr": errtxt[-3000:]}, "source": "crash"})
        start_from = idx + 1
    return res


def run_many(jobs, max_procs):
    """jobs: list of callables returning ShardResult."""
    with ThreadPoolExecutor(max_workers=max_procs) as ex:
        futs = [ex.submit(j) for j in jobs]
        return [f.result() for f in futs]
