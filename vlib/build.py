"""Build cache: compiles dispenso straight from /repo's working tree (never through CMake) plus the
runtime and one harness, per sanitizer configuration, keyed by a content hash of every input."""
import fcntl
import hashlib
import os
import shutil
import subprocess
import sys
from concurrent.futures import ThreadPoolExecutor

REPO = os.environ.get("VERIF_REPO", "/repo")
VERIF = os.path.dirname(os.path.dirname(os.path.abspath(__file__)))
BUILD = os.path.join(VERIF, "_build")
if os.environ.get("VERIF_BUILD_TAG"):
    BUILD = os.path.join(BUILD, "tag-" + os.environ["VERIF_BUILD_TAG"])
CXX = os.environ.get("VERIF_CXX", "g++")

COMMON = ["-pthread", "-I" + REPO, "-I" + os.path.join(REPO, "dispenso", "third-party"),
          "-I" + os.path.join(VERIF, "rt"), "-DDISPENSO_VERIF", "-w"]

CONFIGS = {
    "plain": ["-O2", "-g1", "-DNDEBUG"],
    "tsan": ["-O1", "-g", "-fsanitize=thread", "-DNDEBUG"],
    "asan": ["-O1", "-g", "-fno-omit-frame-pointer", "-fsanitize=address,undefined",
             "-fsanitize=float-cast-overflow", "-fno-sanitize-recover=all"],
    "asan-nosba": ["-O1", "-g", "-fno-omit-frame-pointer", "-fsanitize=address,undefined",
                   "-fsanitize=float-cast-overflow", "-fno-sanitize-recover=all",
                   "-DDISPENSO_NO_SMALL_BUFFER_ALLOCATOR"],
    "ubsan": ["-O2", "-g1", "-DNDEBUG", "-fsanitize=undefined", "-fno-sanitize-recover=all"],
    "cov": ["-O0", "-g", "--coverage", "-DNDEBUG"],
}
LINK = {
    "plain": [], "tsan": ["-fsanitize=thread"], "asan": ["-fsanitize=address,undefined"],
    "asan-nosba": ["-fsanitize=address,undefined"], "ubsan": ["-fsanitize=undefined"],
    "cov": ["--coverage"],
}


def _walk(root, exts):
    out = []
    for d, _, files in os.walk(root):
        if "/.git" in d or "/_build" in d:
            continue
        for f in files:
            if f.endswith(exts):
                out.append(os.path.join(d, f))
    return sorted(out)


def dispenso_sources():
    d = os.path.join(REPO, "dispenso")
    srcs = sorted(os.path.join(d, f) for f in os.listdir(d) if f.endswith(".cpp"))
    dd = os.path.join(d, "detail")
    srcs += sorted(os.path.join(dd, f) for f in os.listdir(dd) if f.endswith(".cpp"))
    return srcs


def _hash_files(paths, extra=""):
    h = hashlib.sha256()
    h.update(extra.encode())
    for p in paths:
        h.update(p.encode())
        with open(p, "rb") as f:
            h.update(f.read())
    return h.hexdigest()[:16]


def repo_hash():
    """Content hash of everything under /repo/dispenso that can influence a build."""
    files = _walk(os.path.join(REPO, "dispenso"), (".h", ".cpp", ".hpp", ".inc"))
    return _hash_files(files)


def _run(cmd, log):
    p = subprocess.run(cmd, stdout=subprocess.PIPE, stderr=subprocess.STDOUT, text=True)
    if p.returncode != 0:
        log.append((cmd, p.stdout))
    return p.returncode


def _compile_many(jobs, nproc):
    """jobs: list of (src, obj, flags)."""
    errs = []
    todo = [(s, o, f) for (s, o, f) in jobs if not os.path.exists(o)]
    if not todo:
        return
    with ThreadPoolExecutor(max_workers=nproc) as ex:
        futs = []
        for s, o, f in todo:
            tmp = o + ".tmp%d" % os.getpid()
            cmd = [CXX] + f + ["-c", s, "-o", tmp]
            futs.append((ex.submit(_run, cmd, errs), tmp, o))
        for fu, tmp, o in futs:
            if fu.result() == 0:
                os.replace(tmp, o)
    if errs:
        cmd, out = errs[0]
        sys.stderr.write("BUILD FAILED: %s\n%s\n" % (" ".join(cmd), out[-6000:]))
        raise RuntimeError("build failed")


def _prune(parent, prefix, keep, min_age_s=1800):
    import time
    for n in os.listdir(parent):
        if n.startswith(prefix) and n != keep:
            p = os.path.join(parent, n)
            try:
                # another engine's build (different lock) may be compiling into / linking from it
                if time.time() - os.path.getmtime(p) < min_age_s:
                    continue
            except OSError:
                continue
            try:
                if os.path.isdir(p):
                    shutil.rmtree(p)
                else:
                    os.remove(p)
            except OSError:
                pass


def build(engine, config, std="c++14", extra_flags=(), nproc=None):
    """Returns the path of the harness executable for (engine, config), rebuilding what is stale."""
    nproc = nproc or int(os.environ.get("VERIF_JOBS", "16"))
    flags = ["-std=" + std] + COMMON + CONFIGS[config] + list(extra_flags)
    cdir = os.path.join(BUILD, "%s-%s" % (config, std.replace("+", "p")))
    if extra_flags:
        cdir += "-" + hashlib.sha256(" ".join(extra_flags).encode()).hexdigest()[:6]
    os.makedirs(cdir, exist_ok=True)
    # one lock per (config dir, engine): different engines build concurrently; shared library
    # objects are written through tmp+rename, so a duplicated compile is harmless
    lockf = open(os.path.join(cdir, ".lock-" + engine), "w")
    fcntl.flock(lockf, fcntl.LOCK_EX)
    try:
        rh = repo_hash()
        rt_src = os.path.join(VERIF, "rt", "verif_rt.cpp")
        rt_hdr = os.path.join(VERIF, "rt", "verif_rt.h")
        libh = hashlib.sha256((rh + " ".join(flags)).encode()).hexdigest()[:16]
        libdir = os.path.join(cdir, "lib-" + libh)
        os.makedirs(libdir, exist_ok=True)
        jobs = []
        objs = []
        for s in dispenso_sources():
            o = os.path.join(libdir, os.path.basename(s).replace(".cpp", ".o"))
            if "/detail/" in s:
                o = os.path.join(libdir, "detail_" + os.path.basename(s).replace(".cpp", ".o"))
            jobs.append((s, o, flags))
            objs.append(o)
        hsrc = os.path.join(VERIF, "harness", engine + ".cpp")
        # an engine may be split over several translation units: <engine>.cpp + <engine>_*.cpp
        hparts = sorted(os.path.join(VERIF, "harness", f) for f in os.listdir(os.path.join(VERIF, "harness"))
                        if f.startswith(engine + "_") and f.endswith(".cpp"))
        hhdrs = [h for h in _walk(os.path.join(VERIF, "harness"), (".h",))
                 if os.path.basename(h).startswith(engine) or os.path.basename(h).startswith("common")]
        hdeps = [hsrc, rt_src, rt_hdr] + hparts + hhdrs
        hh = _hash_files(hdeps, libh)
        hdir = os.path.join(cdir, "%s-%s" % (engine, hh))
        os.makedirs(hdir, exist_ok=True)
        exe = os.path.join(hdir, engine)
        if os.path.exists(exe):
            return exe
        rto = os.path.join(hdir, "verif_rt.o")
        jobs.append((rt_src, rto, flags))
        hobjs = []
        for src in [hsrc] + hparts:
            ho = os.path.join(hdir, os.path.basename(src).replace(".cpp", ".o"))
            hobjs.append(ho)
            jobs.append((src, ho, flags + ["-I" + os.path.join(VERIF, "harness")]))
        # biggest translation units first
        jobs.sort(key=lambda j: 0 if "/harness/" in j[0] else 1)
        _compile_many(jobs, nproc)
        tmp = exe + ".tmp%d" % os.getpid()
        cmd = [CXX] + LINK[config] + ["-pthread", "-o", tmp] + hobjs + [rto] + objs + ["-ldl"]
        errs = []
        if _run(cmd, errs) != 0:
            sys.stderr.write("LINK FAILED: %s\n%s\n" % (" ".join(cmd), errs[0][1][-4000:]))
            raise RuntimeError("link failed")
        os.replace(tmp, exe)
        if not os.environ.get("VERIF_NO_PRUNE"):
            _prune(cdir, "lib-", "lib-" + libh)
        _prune(cdir, engine + "-", "%s-%s" % (engine, hh))
        return exe
    finally:
        fcntl.flock(lockf, fcntl.LOCK_UN)
        lockf.close()
